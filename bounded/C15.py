"""C15 bounded stage: P1 CIF files round-trip (real save_p1_cif / load_p1_cif; ase.io.read as independent reader)."""
import io, os, random, tempfile
import numpy as np
from bounded.common import quiet

CELLS = {'ortho': np.array([[10.5, 0, 0], [0, 11.25, 0], [0, 0, 13.0]]),
         'tri': np.array([[10.5, 0, 0], [1.5, 11.25, 0], [-2.25, 0.75, 13.0]]),
         'tri2': np.array([[9.0, 0, 0], [-3.0, 8.0, 0], [2.0, -1.0, 7.5]]),
         # cells that are not in the standard orientation (a along x, b in the xy plane): an upper-triangular one and a rotated triclinic one
         'upper': np.array([[10.5, 2.0, -1.5], [0, 11.25, 1.75], [0, 0, 13.0]]),
         # two right angles only: hexagonal (gamma = 120) and monoclinic in the c-unique setting
         'hex': np.array([[10.0, 0, 0], [-5.5, 9.526279441628825, 0], [0, 0, 13.0]]),
         'mono-c': np.array([[10.5, 0, 0], [2.5, 11.0, 0], [0, 0, 12.25]]),
         # a slightly strained orthorhombic cell: angles 90.008, 89.994, 89.992 degrees
         'strained': np.array([[10.5, 0, 0], [0.0015, 11.25, 0], [0.0012, -0.0016, 13.0]]),
         'rot': np.array([[10.5, 0, 0], [1.5, 11.25, 0], [-2.25, 0.75, 13.0]]).dot(
             np.array([[0.36, 0.48, -0.8], [-0.8, 0.6, 0.0], [0.48, 0.64, 0.6]]))}


def make(spec):
    from mofun import Atoms
    rnd = random.Random(spec['seed'])
    n = spec['n']
    cell = CELLS[spec['cell']]
    if spec.get('typed'):
        # explicit atom types: two types may share an element (as in a structure loaded from a LAMMPS data file)
        els_t = ['C', 'C', 'N', 'O']
        atom_types = [i % 4 for i in range(n)]
        kw = dict(atom_types=atom_types, atom_type_elements=els_t, atom_type_labels=['C_R', 'C_2', 'N_3', 'O_2'], atom_type_masses=[12.0107, 12.0107, 14.0067, 15.9994])
    else:
        kw = dict(elements=[['C', 'N', 'O', 'Zr', 'H'][rnd.randrange(5)] for _ in range(n)])
    where = spec.get('where', 'inside')
    fr = []
    for i in range(n):
        f = [round(rnd.uniform(0.02, 0.98), 4) for _ in range(3)]
        if where == 'outside':
            f[i % 3] += rnd.choice([1.0, -1.0, 2.0])
        elif where == 'boundary' and i < 3:
            f[i % 3] = rnd.choice([0.0, 1.0, 0.99996])
        fr.append(f)
    kw['positions'] = np.array(fr).dot(cell)
    kw['cell'] = cell
    # three-decimal charges, six-decimal (fitted) charges and tiny ones, alternating from case to case
    kw['charges'] = [round(rnd.uniform(-1.2, 1.2), 3 if spec['seed'] % 2 else 6) if (i + spec['seed']) % 4 else 3.1e-05 for i in range(n)]
    if spec.get('terms') and n >= 4:
        kw.update(bonds=[(0, 1), (2, 1), (3, 2)], bond_types=[0, 1, 2], angles=[(0, 1, 2), (3, 2, 1)], angle_types=[0, 1],
                  dihedrals=[(0, 1, 2, 3)], dihedral_types=[0], impropers=[(1, 0, 2, 3)] if spec.get('impropers') else [], improper_types=[0] if spec.get('impropers') else [])
        if spec.get('kinds') is not None:
            # only some kinds of terms (e.g. impropers without dihedrals, angles without bonds)
            if spec.get('impropers'):
                kw.update(impropers=[(1, 0, 2, 3), (2, 1, 3, 4)], improper_types=[0, 1])
            for kname, plural in (('bond', 'bonds'), ('angle', 'angles'), ('dihedral', 'dihedrals'), ('improper', 'impropers')):
                if kname not in spec['kinds']:
                    kw.pop(plural, None)
                    kw.pop(kname + '_types', None)
    if spec.get('extra'):
        kw.update(extra_atom_labels=['_atom_site_occupancy', '_atom_site_note'], extra_atom_fields=[['1.0', 'a%d' % i] for i in range(n)])
        if spec['seed'] % 2:
            # a column that holds the placeholder only (what merging structures with different columns leaves behind): it is still a column
            kw['extra_atom_labels'].append('_atom_site_calc_flag')
            kw['extra_atom_fields'] = [r + ['.'] for r in kw['extra_atom_fields']]
        if spec.get('terms') and n >= 4:
            kw.update(extra_bond_labels=['_geom_bond_distance', '_ccdc_geom_bond_type'], extra_bond_fields=[['1.%d' % i, 'S'] for i in range(3)],
                      extra_angle_labels=['_geom_angle'], extra_angle_fields=[['109.%d' % i] for i in range(2)],
                      extra_dihedral_labels=['_geom_torsion'], extra_dihedral_fields=[['60.0']])
            if spec.get('impropers'):
                kw.update(extra_improper_labels=['_geom_torsion'], extra_improper_fields=[['61.0']])
    with quiet():
        return Atoms(**kw)


def cellpar(cell):
    a, b, c = (np.linalg.norm(v) for v in cell)
    ang = lambda u, v: np.degrees(np.arccos(np.dot(u, v) / (np.linalg.norm(u) * np.linalg.norm(v))))
    return np.array([a, b, c, ang(cell[1], cell[2]), ang(cell[0], cell[2]), ang(cell[0], cell[1])])


def check(spec):
    from mofun import Atoms
    with quiet():
        a = make(spec)
        f = io.StringIO()
        try:
            a.save_p1_cif(f, use_fract_coords=spec.get('fract', True))
        except Exception as e:
            return "save_p1_cif raised %r" % (e,)
        t1 = f.getvalue()
        try:
            b = Atoms.load_p1_cif(io.StringIO(t1))
        except Exception as e:
            return "load_p1_cif of the written file raised %r" % (e,)
    n = len(a.positions)
    if list(b.elements) != list(a.elements):
        return "elements read back %r, written %r" % (list(b.elements), list(a.elements))
    if not np.allclose(cellpar(np.asarray(b.cell, float)), cellpar(np.asarray(a.cell, float)), atol=2e-4):
        return "cell lengths / angles read back %r, written %r" % (cellpar(np.asarray(b.cell, float)).round(5).tolist(), cellpar(np.asarray(a.cell, float)).round(5).tolist())
    fa = np.asarray(a.positions).dot(np.linalg.inv(np.asarray(a.cell, float)))
    fb = np.asarray(b.positions).dot(np.linalg.inv(np.asarray(b.cell, float)))
    if spec.get('fract', True):
        d = (fa - fb) - np.round(fa - fb)
        if np.abs(d).max() > 6e-5 + 1e-9:
            k = int(np.argmax(np.abs(d).max(axis=1)))
            return "atom %d: fractional coordinates read back %r, written %r (modulo 1)" % (k, fb[k].round(5).tolist(), fa[k].round(5).tolist())
        if fb.min() < -1e-9 or fb.max() >= 1 + 1e-9 or (np.abs(fb - 1.0) < 1e-9).any():
            return "read-back fractional coordinates are not wrapped into [0, 1): min %.6f max %.6f" % (fb.min(), fb.max())
    else:
        if not np.allclose(b.positions, a.positions, atol=6e-5):
            return "Cartesian coordinates read back differ beyond the printed precision"
    if not np.allclose(np.asarray(b.charges, float), np.asarray(a.charges, float), atol=1e-9):
        return "charges read back %r, written %r" % (list(b.charges), list(a.charges))
    tup = lambda arr: [tuple(int(x) for x in t) for t in arr]
    if tup(b.bonds) != tup(a.bonds) or tup(b.angles) != tup(a.angles):
        return "bonds / angles read back %r / %r, written %r / %r" % (tup(b.bonds), tup(b.angles), tup(a.bonds), tup(a.angles))
    if tup(b.dihedrals) != tup(a.dihedrals) + tup(a.impropers):
        return "torsions read back %r, written dihedrals %r followed by impropers %r" % (tup(b.dihedrals), tup(a.dihedrals), tup(a.impropers))
    for k in ('atom', 'bond', 'angle', 'dihedral'):
        la, lb = list(getattr(a, 'extra_%s_labels' % k)), list(getattr(b, 'extra_%s_labels' % k))
        if la != lb:
            return "extra %s columns read back %r, written %r" % (k, lb, la)
        xa, xb = getattr(a, 'extra_%s_fields' % k), getattr(b, 'extra_%s_fields' % k)
        if la and [tuple(str(v) for v in r) for r in xa] != [tuple(str(v) for v in r) for r in xb]:
            return "extra %s values read back %r, written %r" % (k, np.asarray(xb).tolist(), np.asarray(xa).tolist())
    with quiet():
        f2 = io.StringIO()
        b.save_p1_cif(f2, use_fract_coords=spec.get('fract', True))
        t2 = f2.getvalue()
        c = Atoms.load_p1_cif(io.StringIO(t2))
        f3 = io.StringIO()
        c.save_p1_cif(f3, use_fract_coords=spec.get('fract', True))
        t3 = f3.getvalue()
    if t2 != t3:
        la, lb = t2.splitlines(), t3.splitlines()
        k = next((i for i in range(min(len(la), len(lb))) if la[i] != lb[i]), 0)
        return "writing the re-read structure again does not give identical text: line %d %r vs %r" % (k + 1, la[k], lb[k])
    # agreement with an independent CIF reader on cell and positions
    import ase.io
    d = tempfile.mkdtemp(prefix='c15_')
    path = os.path.join(d, 's.cif')
    try:
        open(path, 'w').write(t1)
        with quiet():
            ref = ase.io.read(path)
        if not np.allclose(cellpar(np.asarray(ref.cell)), cellpar(np.asarray(b.cell, float)), atol=2e-4):
            return "cell differs from an independent CIF reader"
        fr = ref.get_scaled_positions(wrap=True)
        d2 = (fr - fb) - np.round(fr - fb)
        if list(ref.get_chemical_symbols()) != list(b.elements) or np.abs(d2).max() > 2e-4:
            return "positions / elements differ from an independent CIF reader"
    finally:
        if os.path.exists(path):
            os.unlink(path)
        os.rmdir(d)
    return None


HAND = """data_hand
_symmetry_space_group_name_H-M    '%s'
_cell_length_a    10.000(2)
_cell_length_b    12.0
_cell_length_c    9.5(1)
_cell_angle_alpha 90
_cell_angle_beta  100.5(3)
_cell_angle_gamma 90
loop_
_atom_site_label
_atom_site_type_symbol
_atom_site_fract_x
_atom_site_fract_y
_atom_site_fract_z
C1 C 0.1000(3) 1.0000 -0.25
N1 N 1.2500(12) 0.5 0.999960
O1 O 0.0 0.0000(1) 1.000(3)
"""


def check_reading(sg, expect_reject, number=None):
    from mofun import Atoms
    text = HAND % sg
    if number is not None:
        # files also carry the International Tables number; the property is about the declared Hermann-Mauguin name
        text = text.replace("_cell_length_a", "_symmetry_Int_Tables_number    %d\n_cell_length_a" % number, 1)
    with quiet():
        try:
            a = Atoms.load_p1_cif(io.StringIO(text))
        except Exception as e:
            return None if expect_reject else "a P1 file with uncertainties in parentheses is rejected: %r" % (e,)
    if expect_reject:
        return "a file declaring space group %r is loaded as if it were P1" % sg
    fr = np.asarray(a.positions).dot(np.linalg.inv(np.asarray(a.cell, float)))
    want = np.array([[0.1, 0.0, 0.75], [0.25, 0.5, 0.99996], [0.0, 0.0, 0.0]])
    d = (fr - want)
    if np.abs(d).max() > 1e-6:
        return "hand-written file: fractional coordinates %r, expected %r (wrapped into [0,1), uncertainties stripped)" % (fr.round(6).tolist(), want.tolist())
    if not np.allclose(cellpar(np.asarray(a.cell, float)), [10.0, 12.0, 9.5, 90, 100.5, 90], atol=1e-6):
        return "hand-written file: cell parameters %r" % (cellpar(np.asarray(a.cell, float)).round(6).tolist(),)
    return None


def replay(inp):
    if 'sg' in inp:
        msg = check_reading(inp['sg'], inp['reject'], inp.get('number'))
    else:
        msg = check(inp)
    return (msg is not None), (msg or 'CIF round trip holds')


REPLAY = {'cif': replay}


def run(rec, tier, seed):
    rec.rule = ("generated structures (1-6 atoms; per-atom elements or explicit types where two types share an element; bonds, angles, dihedrals, "
                "impropers, also single kinds such as impropers without dihedrals; extra atom / bond / angle / torsion columns) in 7 cells (two not in the standard orientation, two with exactly two right angles), coordinates inside / outside / on the boundary (0, 1, 0.99996), "
                "fractional and Cartesian output: write -> read -> compare -> rewrite to identical text; comparison with ase.io.read; hand-written "
                "files with uncertainties in parentheses; 25 space-group names (P1 spellings accepted, everything else rejected). distinct = specs")
    k = 0
    for cell in CELLS:
        for where in ('inside', 'outside', 'boundary'):
            for terms, impropers, extra in ((False, False, False), (True, False, False), (True, True, True), (False, False, True)):
                for typed in (False, True):
                    for fract in (True, False):
                        k += 1
                        if tier == 'quick' and k % 3 == 1:
                            continue
                        if not fract and where != 'inside':
                            continue
                        spec = dict(cell=cell, where=where, terms=terms, impropers=impropers, extra=extra, typed=typed, fract=fract, n=6 if terms else (k % 5) + 1, seed=seed * 100 + k)
                        msg = check(spec)
                        rec.case(repr(sorted(spec.items())), sample=spec if len(rec.samples) < 2 else None, group='roundtrip')
                        if msg:
                            known = impropers and extra and terms and 'different lengths' in msg and '_geom_torsion' in msg
                            key = 'cif-torsion-extras-with-impropers' if known else 'cif-roundtrip'
                            if 'does not give identical text' in msg and '-0.0000' in msg and msg.replace('-0.0000', '0.0000 ').count('0.0000') >= 2:
                                a_, _, b_ = msg.partition(' vs ')
                                if a_.split(': line')[1].split("'")[1].replace('-0.0000 ', '0.0000  ').split() == b_.split("'")[1].replace('-0.0000 ', '0.0000  ').split():
                                    key = 'cif-negative-zero-text'
                            rec.fail('cif', key, "%s on %r" % (msg, spec), spec, 'C15/roundtrip')
    for ki, kinds in enumerate((['improper'], ['dihedral'], ['angle'], ['bond'], ['bond', 'improper'], ['angle', 'dihedral', 'improper'])):
        for cell in list(CELLS)[:1] if tier == 'quick' else list(CELLS):
            spec = dict(cell=cell, where='inside', terms=True, impropers=True, extra=False, typed=bool(ki % 2), fract=True, n=6, seed=seed * 100 + 90 + ki, kinds=kinds)
            msg = check(spec)
            rec.case(repr(sorted(spec.items())), group='roundtrip-kinds')
            if msg:
                rec.fail('cif', 'cif-roundtrip', "%s on %r" % (msg, spec), spec, 'C15/roundtrip')
    for sg in ('P1', 'P 1'):
        msg = check_reading(sg, False)
        rec.case(('sg', sg), group='reading')
        if msg:
            rec.fail('cif', 'cif-reading', msg, {'sg': sg, 'reject': False}, 'C15/reading')
    for sg in ('P -1', 'P 21/c', 'P 1 21/c 1', 'P 1 2/m 1', 'P 1 c 1', 'P121/c1', 'C 2/c', 'P 4/m m m', 'F m -3 m', 'P 2', 'P1211', 'P 1 1 2', 'P-1', 'Pnma', 'I 41/a m d',
               'P 1 21 1', 'R -3 m', 'P 63/m m c', 'P 2 2 2', 'P 1 n 1', 'A 1 2 1', 'P 3', 'P 11', 'Pm-3m'):
        msg = check_reading(sg, True)
        rec.case(('sg', sg), group='reading')
        if msg:
            rec.fail('cif', 'cif-spacegroup', msg, {'sg': sg, 'reject': True}, 'C15/spacegroup')
    # the declared name decides, whatever number tag accompanies it (a P1 file whose name was edited keeps "1"; a wrong number does not make P1 something else)
    for sg, number, reject in (('P -1', 1, True), ('P 21/c', 1, True), ('F m -3 m', 1, True), ('P -1', 2, True), ('P1', 1, False), ('P 1', 1, False)):
        msg = check_reading(sg, reject, number)
        rec.case(('sg', sg, number), group='reading')
        if msg:
            rec.fail('cif', 'cif-spacegroup' if reject else 'cif-reading', msg + " (with _symmetry_Int_Tables_number %d)" % number, {'sg': sg, 'reject': reject, 'number': number}, 'C15/spacegroup')
