"""C16 bounded stage: generated CML documents through the real Atoms.load / load_cml (path and open file)."""
import io, itertools, os, random, tempfile
import numpy as np
from bounded.common import quiet

ELS = ['C', 'N', 'O', 'H', 'Zr', 'Cl']


def make_doc(n_atoms, bonds, ids, rnd, geometry=None):
    atoms = []
    for i in range(n_atoms):
        if geometry == 'compact':
            # a molecule-sized geometry: atoms 0.9 - 1.5 A from their neighbours (whether or not the document lists bonds between them)
            atoms.append((ids[i], ELS[rnd.randrange(len(ELS))], round(1.1 * i + rnd.uniform(-0.1, 0.1), 5), round(rnd.uniform(-0.3, 0.3), 4), round(rnd.uniform(-0.3, 0.3), 6)))
        elif geometry == 'origin':
            # every coordinate zero (a single atom at the origin; several atoms written at the origin), in various spellings of zero
            atoms.append((ids[i], ELS[rnd.randrange(len(ELS))], 0.0, [0.0, -0.0][i % 2], 0.0))
        else:
            atoms.append((ids[i], ELS[rnd.randrange(len(ELS))], round(rnd.uniform(-50, 50), 5), round(rnd.uniform(-1e3, 1e3), 4),
                          rnd.choice([round(rnd.uniform(-5, 5), 6), -2.5e-05, 1.5e+17, 3e-07])))
    lines = ['<?xml version="1.0" encoding="UTF-8"?>', '<molecule xmlns="http://www.xml-cml.org/schema">'.replace(' xmlns="http://www.xml-cml.org/schema"', ''), ' <atomArray>']
    for a in atoms:
        lines.append('  <atom id="%s" elementType="%s" x3="%r" y3="%r" z3="%r"/>' % a)
    lines.append(' </atomArray>')
    lines.append(' <bondArray>')
    for (i, j, o) in bonds:
        lines.append('  <bond atomRefs2="%s %s" order="%d"/>' % (ids[i], ids[j], o))
    lines.append(' </bondArray>')
    lines.append('</molecule>')
    return "\n".join(lines) + "\n", atoms


def gen_spec(n_atoms, n_bonds, scheme, seed):
    return dict(n_atoms=n_atoms, n_bonds=n_bonds, scheme=scheme, seed=seed)


def build(spec):
    rnd = random.Random(spec.get('seed', 0))
    n = spec['n_atoms']
    scheme = spec.get('scheme', 'seq')
    if scheme == 'seq':
        ids = ['a%d' % (i + 1) for i in range(n)]
    elif scheme == 'nonseq':
        ids = ['a%d' % (7 * i + 3) for i in range(n)]
    elif scheme == 'shuffled':
        ids = ['a%d' % (i + 1) for i in range(n)]
        rnd.shuffle(ids)
    elif scheme == 'digits':
        # ids that are bare numbers: zero-based, non-sequential or shuffled (they are names, not positions)
        ids = [[str(i) for i in range(n)], [str(10 * i + 5) for i in range(n)], [str(i + 1) for i in range(n)]][spec.get('seed', 0) % 3]
        if spec.get('seed', 0) % 3 == 2 or n > 2:
            rnd.shuffle(ids)
    elif scheme == 'case':
        base = ['CA', 'Ca', 'N', 'n', 'HA', 'Ha', 'OW', 'ow']
        ids = base[:n] if n <= len(base) else base + ['z%d' % i for i in range(n - len(base))]
    else:
        ids = ['%s_%s' % (rnd.choice(['x', 'atom', 'Zr', 'q-']), ''.join(rnd.choice('abcXYZ019') for _ in range(4)) + str(i)) for i in range(n)]
    pairs = [(i, j) for i in range(n) for j in range(n) if i != j]
    rnd.shuffle(pairs)
    bonds = [(i, j, rnd.choice([1, 2, 3, 0])) for (i, j) in pairs[:spec['n_bonds']]] if n > 1 else []       # order 0: a contact listed as a bond is still a bond entry
    text, atoms = make_doc(n, bonds, ids, rnd, spec.get('geometry'))
    return text, atoms, bonds


def check(spec):
    from mofun import Atoms
    text, atoms, bonds = build(spec)
    with quiet():
        try:
            a1 = Atoms.load_cml(io.StringIO(text))
            d = tempfile.mkdtemp(prefix='c16_')
            path = os.path.join(d, 'm.cml')
            open(path, 'w').write(text)
            a2 = Atoms.load(path)
            with open(path) as fh:
                a3 = Atoms.load(fh, filetype='cml')
            a4 = Atoms.load_cml(io.StringIO(text), verbose=True)      # the same document with progress printing switched on
            a5 = Atoms.load(path, verbose=True)
            os.unlink(path)
            os.rmdir(d)
        except Exception as e:
            return "loading a document with %d atoms and %d bonds raised %r" % (len(atoms), len(bonds), e)
    for name, a in (('file object', a1), ('path', a2), ('open file via load', a3), ('file object, verbose', a4), ('path, verbose', a5)):
        if len(a.positions) != len(atoms):
            return "%s: %d atoms loaded, document has %d" % (name, len(a.positions), len(atoms))
        if list(a.elements) != [x[1] for x in atoms]:
            return "%s: elements %r differ from the document's %r" % (name, list(a.elements), [x[1] for x in atoms])
        want = np.array([[x[2], x[3], x[4]] for x in atoms], dtype=float).reshape(-1, 3)
        if not np.array_equal(np.asarray(a.positions, dtype=float).reshape(-1, 3), want):
            return "%s: positions differ from x3/y3/z3" % name
        got = [tuple(int(v) for v in b) for b in a.bonds]
        if got != [(i, j) for (i, j, o) in bonds]:
            return "%s: bonds %r, document says %r" % (name, got, [(i, j) for (i, j, o) in bonds])
        if len(a.bond_types) != len(bonds):
            return "%s: %d bond types for %d bonds" % (name, len(a.bond_types), len(bonds))
    return None


def check_rewrite():
    """The same path loaded again after the file was rewritten reflects the new content (and agrees with an open file)."""
    from mofun import Atoms
    d = tempfile.mkdtemp(prefix='c16_')
    path = os.path.join(d, 'pattern.cml')
    msg = None
    try:
        for k, spec in enumerate([dict(n_atoms=3, n_bonds=2, scheme='seq', seed=1), dict(n_atoms=5, n_bonds=3, scheme='shuffled', seed=2), dict(n_atoms=1, n_bonds=0, scheme='seq', seed=3)]):
            text, atoms, bonds = build(spec)
            open(path, 'w').write(text)
            with quiet():
                a = Atoms.load(path)
            if list(a.elements) != [x[1] for x in atoms] or len(a.bonds) != len(bonds):
                msg = "load #%d of the rewritten path gives %d atoms / %d bonds, the file now holds %d / %d" % (k + 1, len(a.positions), len(a.bonds), len(atoms), len(bonds))
                break
    finally:
        if os.path.exists(path):
            os.unlink(path)
        os.rmdir(d)
    return msg


def replay(inp):
    if inp.get('rewrite'):
        msg = check_rewrite()
        return (msg is not None), (msg or 'reloading a rewritten path reflects the file')
    spec = dict(n_atoms=int(inp.get('n_atoms', 1)), n_bonds=int(inp.get('n_bonds', 0)), scheme=inp.get('scheme', 'seq'), seed=inp.get('seed', 0))
    if inp.get('geometry'):
        spec['geometry'] = inp['geometry']
    msg = check(spec)
    return (msg is not None), (msg or 'document loads faithfully')


REPLAY = {'cml': replay}


def run(rec, tier, seed):
    msg = check_rewrite()
    rec.case('rewrite-same-path', group='rewrite')
    if msg:
        rec.fail('cml', 'load-rewritten-path', msg, {'rewrite': True}, 'C16/load/path')
    rec.rule = ("generated Avogadro-flavour CML documents: 1-6 atoms, 0-6 bonds, id schemes {sequential, non-sequential, shuffled, arbitrary "
                "strings, case-distinguished, bare numbers}, signed coordinates of varied magnitude; loaded from StringIO, from a path via Atoms.load and from an open file; "
                "compared with the document. distinct = specs; non-trivial = all")
    seeds = range(2) if tier == 'quick' else range(8)
    # molecule-sized geometries with few or no bond entries, and documents whose coordinates are all zero
    for n in range(1, 6):
        for nb in (0, 1):
            for geometry in ('compact', 'origin'):
                if n == 1 and nb:
                    continue
                spec = dict(gen_spec(n, nb, 'seq', seed * 100 + 50 + n), geometry=geometry)
                msg = check(spec)
                rec.case(repr(sorted(spec.items())), group='geometry')
                if msg:
                    rec.fail('cml', 'load_cml', "%s on %r" % (msg, spec), spec, 'C16/load_cml/post')
    for n in range(1, 7):
        for nb in sorted({0, 1, min(n * (n - 1), 3), min(n * (n - 1), 6)}):
            if n == 1 and nb > 0:
                continue
            for scheme in ('seq', 'nonseq', 'shuffled', 'arbitrary', 'case', 'digits'):
                for s in seeds:
                    spec = gen_spec(n, nb, scheme, seed * 100 + s)
                    msg = check(spec)
                    rec.case(repr(sorted(spec.items())), sample=spec if len(rec.samples) < 3 else None)
                    if msg:
                        rec.fail('cml', 'load_cml', "%s on %r" % (msg, spec), spec, 'C16/load_cml/post')
