"""C18 exhaustive / stratified stage: the real rough_uff functions on the real UFF4MOF table against an
independent implementation of the UFF formulas (specs/uff_spec.py)."""
import io, itertools, math, os, random, sys
from concurrent.futures import ProcessPoolExecutor
from bounded.common import quiet
from specs import uff_spec as SP

REL = 1e-9


def close(a, b):
    if isinstance(a, str) or isinstance(b, str) or a is None or b is None:
        return a == b
    if isinstance(a, (tuple, list)):
        return isinstance(b, (tuple, list)) and len(a) == len(b) and all(close(x, y) for x, y in zip(a, b))
    if not (math.isfinite(a) and math.isfinite(b)):
        return False
    return abs(a - b) <= REL * max(1.0, abs(a), abs(b))


def call(fn, *a, **k):
    try:
        return ('ok', fn(*a, **k))
    except Exception as e:
        return ('raise', type(e).__name__)


def check_bond(a1, a2, bo, rules=None):
    from mofun import rough_uff as U
    T = U.UFF4MOF
    got = call(U.bond_params, a1, a2, bond_order=bo, bond_order_rules=rules)
    want = call(SP.bond, T, a1, a2, bo, rules)
    rev = call(U.bond_params, a2, a1, bond_order=bo, bond_order_rules=rules)
    msgs = []
    if got[0] != want[0] or (got[0] == 'ok' and not close(got[1], want[1])):
        msgs.append("bond_params(%s,%s,bo=%r) = %r, formulas give %r" % (a1, a2, bo, got, want))
    elif got[0] == 'ok':
        k, r = got[1]
        if not (math.isfinite(k) and math.isfinite(r) and k > 0 and r > 0):
            msgs.append("bond_params(%s,%s,bo=%r) = %r not finite/positive" % (a1, a2, bo, got[1]))
    if got[0] != rev[0] or (got[0] == 'ok' and not close(got[1], rev[1])):
        msgs.append("bond_params(%s,%s,bo=%r) = %r but reversed gives %r" % (a1, a2, bo, got, rev))
    return msgs


def check_angle(a1, a2, a3, bos, rules=None):
    from mofun import rough_uff as U
    T = U.UFF4MOF
    kw = {'bond_order_rules': rules} if rules is not None else {}
    got = call(U.angle_params, a1, a2, a3, bond_orders=list(bos), **kw)
    want = call(SP.angle, T, a1, a2, a3, bos, rules)
    rev = call(U.angle_params, a3, a2, a1, bond_orders=list(reversed(bos)), **kw)
    msgs = []
    if got[0] != want[0] or (got[0] == 'ok' and not close(got[1], want[1])):
        msgs.append("angle_params(%s,%s,%s,bos=%r) = %r, formulas give %r" % (a1, a2, a3, bos, got, want))
    elif got[0] == 'ok':
        p = got[1]
        if not (all(math.isfinite(x) for x in p[1:]) and p[1] > 0):
            msgs.append("angle_params(%s,%s,%s,bos=%r) = %r not finite / force constant not positive" % (a1, a2, a3, bos, p))
    if got[0] != rev[0] or (got[0] == 'ok' and not close(got[1], rev[1])):
        msgs.append("angle_params(%s,%s,%s) = %r but reversed gives %r" % (a1, a2, a3, got, rev))
    return msgs


def check_dihedral(a, M, bo):
    from mofun import rough_uff as U
    T = U.UFF4MOF
    with quiet():
        got = call(U.dihedral_params, *a, num_dihedrals_about_bond=M, bond_order=bo)
        rev = call(U.dihedral_params, *reversed(a), num_dihedrals_about_bond=M, bond_order=bo)
    want = call(SP.torsion, T, U.MAIN_GROUP_ELEMENTS, a, M, bo)
    msgs = []
    if got[0] != want[0] or (got[0] == 'ok' and not close(got[1], want[1])):
        msgs.append("dihedral_params(%s, M=%d, bo=%r) = %r, formulas give %r" % (a, M, bo, got, want))
    elif got[0] == 'ok' and got[1] is not None and not all(math.isfinite(x) for x in got[1][1:]):
        msgs.append("dihedral_params(%s, M=%d, bo=%r) = %r not finite" % (a, M, bo, got[1]))
    if got[0] != rev[0] or (got[0] == 'ok' and not close(got[1], rev[1])):
        msgs.append("dihedral_params(%s, M=%d) = %r but reversed gives %r" % (a, M, got, rev))
    return msgs


def check_pair(a1):
    from mofun import rough_uff as U
    got = call(U.pair_coeffs, a1)
    want = call(SP.pair, U.UFF4MOF, a1)
    if got[0] != want[0] or not close(got[1], want[1]):
        return ["pair_coeffs(%s) = %r, formulas give %r" % (a1, got, want)]
    if not all(math.isfinite(x) for x in got[1]):
        return ["pair_coeffs(%s) not finite" % a1]
    return []


def replay(inp):
    k = inp['fn']
    if k == 'bond':
        rules = [(set(r[0]), r[1]) for r in inp['rules']] if inp.get('rules') else None
        msgs = check_bond(inp['a'][0], inp['a'][1], inp['bo'], rules)
    elif k == 'angle':
        rules = [(set(r[0]), r[1]) for r in inp['rules']] if inp.get('rules') else None
        msgs = check_angle(*inp['a'], tuple(inp['bos']), rules)
    elif k == 'dihedral':
        msgs = check_dihedral(tuple(inp['a']), inp['M'], inp['bo'])
    else:
        msgs = check_pair(inp['a'][0])
    return (len(msgs) > 0, '; '.join(msgs) or 'agrees with the formulas')


REPLAY = {'uff': replay}


def _angle_chunk(args):
    sys.path.insert(0, os.environ.get('MOFUN_REPO', '/repo'))
    keys, a2s, bos_list, sample, seed = args
    rnd = random.Random(seed)
    fails, n = [], 0
    for a2 in a2s:
        for a1 in keys:
            for a3 in keys:
                if sample is not None and rnd.random() > sample:
                    continue
                for bos in bos_list:
                    n += 1
                    m = check_angle(a1, a2, a3, bos)
                    if m and len(fails) < 3:
                        fails.append((m[0], {'fn': 'angle', 'a': [a1, a2, a3], 'bos': list(bos)}))
    return n, fails


def run(rec, tier, seed):
    from mofun import rough_uff as U
    T = U.UFF4MOF
    keys = list(T.keys())
    thorough = tier == 'thorough'
    rec.rule = ("real rough_uff functions on the real 221-row table vs an independent implementation of the UFF formulas: all ordered "
                "pairs x bond orders {guessed,1,1.5,2} (+ user rules), triples %s, quadruples = all (a2,a3) pairs x sp2/non-sp2 end "
                "classes x M in {1,2,4,9} x bond orders; checks equality (rel 1e-9), finiteness, positive bond/angle constants and "
                "bond length, style, reversal symmetry. distinct = distinct argument tuples" %
                ("exhaustively" if thorough else "stratified: all central atoms, ~2%% of end pairs"))
    bos = [None, 1, 1.5, 2]
    # pairs
    for a1 in keys:
        for m in check_pair(a1):
            rec.fail('uff', 'pair_coeffs', m, {'fn': 'pair', 'a': [a1]}, 'C18/pair_coeffs/post')
        rec.case(('pair', a1), group='pair')
    for a1 in keys:
        for a2 in keys:
            for bo in bos:
                ms = check_bond(a1, a2, bo)
                rec.case(('bond', a1, a2, bo), group='bond', sample={'bond': [a1, a2, bo]} if len(rec.samples) < 1 else None)
                for m in ms:
                    rec.fail('uff', 'bond_params', m, {'fn': 'bond', 'a': [a1, a2], 'bo': bo}, 'C18/bond_params/post')
    # (the third list names one pair twice with different orders: the first rule that matches is the one that counts)
    rules_sets = [[({'N_1'}, 2), ({'N_1', 'N_2'}, 2)], [({'C_R', 'O_2'}, 1.5)], [({'C_3', 'C_3'}, 3)],
                  [({'C_R', 'N_2'}, 1.41), ({'C_3', 'O_2'}, 0.5), ({'N_2', 'C_R'}, 1.5), ({'C_R'}, 1.2), ({'C_R', 'C_R'}, 1.7)]]
    probe = ['N_1', 'N_2', 'C_R', 'O_2', 'C_3', 'H_', 'Zr3+4', 'O_3_z', 'Cu3+1']
    for rules in rules_sets:
        for a1 in probe:
            for a2 in probe:
                ms = check_bond(a1, a2, None, rules)
                rec.case(('bondrules', a1, a2, repr(rules)), group='bond+rules')
                for m in ms:
                    rec.fail('uff', 'bond_params_rules', m, {'fn': 'bond', 'a': [a1, a2], 'bo': None, 'rules': [[sorted(s), b] for s, b in rules]}, 'C18/guess_bond_order')
    # angles with user rules for the bond orders (a rule may match the first bond, the second, both or neither), orders given for neither / one bond
    for rules in rules_sets:
        for a1 in probe:
            for a2 in probe:
                for a3 in probe:
                    for bos in ((None, None), (1, None), (None, 1.5)):
                        ms = check_angle(a1, a2, a3, bos, rules)
                        rec.case(('anglerules', a1, a2, a3, bos, repr(rules)), group='angle+rules')
                        for m in ms:
                            rec.fail('uff', 'angle_params_rules', m, {'fn': 'angle', 'a': [a1, a2, a3], 'bos': list(bos), 'rules': [[sorted(s_), b] for s_, b in rules]}, 'C18/angle_params/post')
    # triples
    bos2 = [(None, None), (1, 1), (1.5, 2), (2, 1)] if thorough else [(None, None), (1.5, 2)]
    sample = None if thorough else 0.02
    chunks = [(keys, keys[i::32], bos2, sample, seed + i) for i in range(32)]
    with ProcessPoolExecutor(max_workers=min(16, os.cpu_count() or 4)) as ex:
        for n, fails in ex.map(_angle_chunk, chunks):
            rec.evaluations += n
            rec.counts['angle'] = rec.counts.get('angle', 0) + n
            for m, inp in fails:
                rec.fail('uff', 'angle_params', m, inp, 'C18/angle_params/post')
    rec.distinct.add(('angle-triples', rec.counts.get('angle', 0)))
    # quadruples: quotient by the proved dependency (ends matter only through hybridisation '2')
    ends = ['C_2', 'C_3'] if not thorough else ['C_2', 'N_2', 'C_3', 'C_R', 'H_', 'Zr3+4']
    Ms = [1, 2, 4, 9]
    pairs = [(a2, a3) for a2 in keys for a3 in keys]
    if not thorough:
        rnd = random.Random(seed)
        pairs = [p for p in pairs if rnd.random() < 0.25 or p[0] == p[1]]
    for (a2, a3) in pairs:
        for e1 in ends:
            for e4 in ends:
                for M in (Ms if thorough else [1, 4]):
                    for bo in (bos if thorough else [None, 1.5]):
                        a = (e1, a2, a3, e4)
                        ms = check_dihedral(a, M, bo)
                        rec.case(('dih', a, M, bo), group='dihedral', sample={'dihedral': [a, M, bo]} if len(rec.samples) < 3 else None)
                        for m in ms:
                            rec.fail('uff', 'dihedral_params', m, {'fn': 'dihedral', 'a': list(a), 'M': M, 'bo': bo}, 'C18/dihedral_params/post')
    rec.exhaustive = bool(thorough)
    rec.bounds = {'types': len(keys), 'angle_sample_fraction': sample or 1.0, 'dihedral_end_classes': ends, 'M': Ms}
