"""C12 bounded stage: Atoms.replicate on the real code against the replication spec."""
import itertools
import numpy as np
from bounded.common import quiet
from bounded import gen

CELLS = {'ortho': np.array([[11., 0, 0], [0, 12., 0], [0, 0, 13.]]),
         'tri': np.array([[11., 0, 0], [2.5, 12., 0], [-1.5, 2.0, 13.]]),
         'tri-neg': np.array([[10., 0, 0], [-3.0, 9., 0], [1.0, -2.0, 8.]]),
         'rotated': np.array([[7.0, 7.0, 0.0], [-6.0, 6.0, 1.0], [0.5, 1.0, 12.0]])}      # not in LAMMPS orientation
# the same lattices (equal lengths and angles) described in another orientation: a call must not depend on what was replicated before
_TURN = np.array([[0.36, 0.48, -0.8], [-0.8, 0.6, 0.0], [0.48, 0.64, 0.6]])
CELLS['tri-turned'] = CELLS['tri'].dot(_TURN)
CELLS['ortho-turned'] = CELLS['ortho'].dot(_TURN)


def check(spec):
    with quiet():
        a = gen.mk(n=spec['n'], seed=spec['seed'], terms=spec['terms'], coeffs=spec['coeffs'], extra=spec['extra'], cell='ortho', kinds=spec.get('kinds'))
        a.cell = CELLS[spec['cell']].copy()
        if spec.get('on_faces'):
            # two atoms of the same type exactly one lattice vector apart (one on a face, one on the opposite face): images coincide with originals
            a.positions = np.array(a.positions, dtype=float)
            a.positions[0] = np.zeros(3) + 0.25 * a.cell[1]
            a.positions[-1] = a.positions[0] + a.cell[spec['on_faces'] - 1]
            a.atom_types = np.array(a.atom_types)
            a.atom_types[-1] = a.atom_types[0]
            a.charges[-1] = a.charges[0]
            a.groups[-1] = a.groups[0]
        if spec.get('tiny_net'):
            # charges rounded to three decimals that leave a small residual net charge per cell (+0.003)
            a.charges = np.array([0.001 * ((7 * i) % 5 - 2) for i in range(len(a.positions))], dtype=float)
            a.charges[0] += 0.003 - a.charges.sum()
        va = gen.view(a)
        reps = tuple(spec['reps'])
        if spec.get('reps_as') == 'default':
            try:
                r0 = a.replicate()           # no factors given: the documented default (1, 1, 1), i.e. an equal copy
            except Exception as e:
                return "replicate() raised %r" % (e,)
            if gen.view(r0) != va:
                return "replicate() without factors does not give an equal copy of the structure"
        if spec.get('reps_as') == 'array':
            reps = np.array(spec['reps'])          # what the command line's --mic path passes
        elif spec.get('reps_as') == 'list':
            reps = list(spec['reps'])
        try:
            r = a.replicate(reps)
        except Exception as e:
            return "replicate%r raised %r" % (reps, e)
        vr = gen.view(r)
        va2 = gen.view(a)
        probs = gen.wf_problems(r)
    if va2 != va:
        return "the original object was modified"
    N = len(va['atoms'])
    A, B, C = CELLS[spec['cell']]
    ra, rb, rc = (int(x) for x in reps)
    if len(vr['atoms']) != ra * rb * rc * N:
        return "%d atoms, expected %d" % (len(vr['atoms']), ra * rb * rc * N)
    want_cell = np.array([ra * A, rb * B, rc * C])
    if not np.allclose(np.array(vr['cell']), want_cell, atol=1e-9):
        return "new cell %r, expected rows a*A, b*B, c*C = %r" % (vr['cell'], want_cell.tolist())
    # every original atom appears exactly once at each lattice offset with identical data; images are contiguous blocks
    offsets = {}
    for blk in range(ra * rb * rc):
        base = vr['atoms'][blk * N:(blk + 1) * N]
        d = None
        for n, (o, g) in enumerate(zip(va['atoms'], base)):
            if (o['el'], o['label'], o['mass'], o['q'], o['grp'], o['pair'], o['extra']) != (g['el'], g['label'], g['mass'], g['q'], g['grp'], g['pair'], g['extra']):
                return "atom %d of image block %d differs from the original in type/charge/group/extra fields" % (n, blk)
            dn = np.array(g['pos']) - np.array(o['pos'])
            if d is None:
                d = dn
            elif not np.allclose(d, dn, atol=1e-6):
                return "image block %d is not a rigid translate of the original" % blk
        if N:
            ijk = np.linalg.solve(np.array([A, B, C]).T, d)
            rounded = np.round(ijk)
            if not np.allclose(ijk, rounded, atol=1e-6):
                return "image block %d is shifted by %r, not a lattice vector" % (blk, list(np.round(d, 4)))
            key = tuple(int(x) for x in rounded)
            if key in offsets:
                return "lattice offset %r occurs twice" % (key,)
            offsets[key] = blk
    if N and set(offsets) != set(itertools.product(range(ra), range(rb), range(rc))):
        return "lattice offsets %r, expected all (i,j,k) with 0<=i<%d, 0<=j<%d, 0<=k<%d" % (sorted(offsets), ra, rb, rc)
    for plural in ('bonds', 'angles', 'dihedrals', 'impropers'):
        want = []
        for blk in range(ra * rb * rc):
            for t in va[plural]:
                want.append(dict(t, atoms=tuple(x + blk * N for x in t['atoms'])))
        got = vr[plural]
        key = lambda t: (t['atoms'], t['type'], t['coeff'], t['extra'])
        if sorted(map(key, got), key=repr) != sorted(map(key, want), key=repr):
            return "%s after replication: %d terms %r..., expected each term copied inside every image with its type (%d terms)" % (plural, len(got), [t['atoms'] for t in got][:4], len(want))
    if (ra, rb, rc) == (1, 1, 1) and vr != va:
        return "1x1x1 replication is not the identity"
    if probs:
        return "inconsistent replicated object: " + "; ".join(probs)
    return None


def replay(inp):
    if str(inp.get('cell', '')).endswith('-turned'):
        check(dict(inp, cell=inp['cell'].replace('-turned', '')))      # the call that came before it in the run (same lattice, other orientation)
    msg = check(inp)
    return (msg is not None), (msg or 'replication agrees with the spec')


REPLAY = {'replicate': replay}


def run(rec, tier, seed):
    rec.rule = ("structures with 1-4 atoms, all term kinds incl. impropers (and single-kind mixtures), with/without coefficient tables and extra fields, "
                "in 6 cells (orthorhombic, triclinic +/- tilt, arbitrarily oriented, the first two again in another orientation) x replication triples incl. unequal factors; atom count, lattice "
                "offsets each once, identical per-atom data, terms copied per image with type, new cell rows a*A,b*B,c*C, original unmodified, "
                "1x1x1 identity; also same-type atoms on opposite faces (an image coincides with an original atom). distinct = specs")
    reps = [(1, 1, 1), (2, 1, 1), (1, 2, 1), (1, 1, 2), (2, 1, 3), (3, 2, 1), (2, 2, 2)]
    if tier == 'quick':
        reps = reps[:5] + [(2, 2, 2)]
    for cell in CELLS:
        for n in (1, 3, 4, 6):        # (6 atoms: the bond list is not in lexicographic order and its types differ)
            for (terms, coeffs, extra, kinds) in ((True, True, True, None), (True, False, False, None), (False, True, False, None), (True, True, False, ['improper']), (True, False, True, ['dihedral', 'improper'])):
                for r in reps:
                    spec = dict(cell=cell, n=n, seed=seed + n, terms=terms, coeffs=coeffs, extra=extra, kinds=kinds, reps=list(r))
                    msg = check(spec)
                    rec.case(repr(spec), sample=spec if len(rec.samples) < 2 else None)
                    if msg:
                        rec.fail('replicate', 'replicate', "%s on %r" % (msg, spec), spec, 'C12/replicate/post')
    # the replication triple given as a numpy array / a list; a cell with a small residual net charge
    for ci, cell in enumerate(CELLS):
        for r in ((1, 1, 1), (2, 1, 1), (1, 2, 2)):
            for as_ in ('array', 'list', 'default'):
                spec = dict(cell=cell, n=3, seed=seed + 5, terms=True, coeffs=True, extra=False, kinds=None, reps=list(r), reps_as=as_, tiny_net=bool((ci + len(as_)) % 2))
                msg = check(spec)
                rec.case(repr(spec), group='triple-as-array-or-list')
                if msg:
                    rec.fail('replicate', 'replicate', "%s on %r" % (msg, spec), spec, 'C12/replicate/post')
    for cell in CELLS:
        for axis, r in ((1, (2, 1, 1)), (2, (1, 2, 1)), (3, (2, 1, 2)), (1, (1, 2, 2))):
            spec = dict(cell=cell, n=3, seed=seed + 7, terms=True, coeffs=True, extra=False, kinds=None, reps=list(r), on_faces=axis)
            msg = check(spec)
            rec.case(repr(spec), group='atoms-on-opposite-faces')
            if msg:
                rec.fail('replicate', 'replicate', "%s on %r" % (msg, spec), spec, 'C12/replicate/post')
