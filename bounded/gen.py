"""Generators of small Atoms structures shared by the bounded stages (real mofun objects, /venv/bin/python)."""
import copy, itertools, random
import numpy as np
from bounded.common import quiet

ELS = ['C', 'N', 'O', 'H', 'Zr']


def mk(n, terms=True, coeffs=True, extra=True, cell='ortho', seed=0, labels=True, typed=None, kinds=None, xrev=False, long=False, unused=None, dup=False, rev=False, sparse_bonds=False):
    """Structure with n atoms (n <= 6), a fixed pool of terms restricted to existing atoms, type tables."""
    from mofun import Atoms
    rnd = random.Random(seed * 7919 + n)
    els = [ELS[(i + seed) % 3] for i in range(n)]
    uniq = list(dict.fromkeys(els))
    atom_types = [uniq.index(e) for e in els]
    if unused is None:
        unused = (seed % 2 == 1)
    if unused:
        uniq = uniq + ['Xe']          # a trailing atom type that no atom uses (e.g. declared in a file, or left over after a deletion)
    pos = [[round(1.3 * i + 0.1 * ((seed + i) % 3), 4), round(0.7 * ((i * i + seed) % 4), 4), round(0.45 * ((i + 2 * seed) % 5), 4)] for i in range(n)]
    kw = dict(atom_types=atom_types, positions=pos, atom_type_elements=uniq,
              atom_type_masses=[{'C': 12.0107, 'N': 14.0067, 'O': 15.9994, 'H': 1.00794, 'Zr': 91.224, 'Xe': 131.293}[e] for e in uniq],
              charges=[round(0.1 * i - 0.2, 3) for i in range(n)], groups=[i % 2 for i in range(n)])
    if labels:
        kw['atom_type_labels'] = ["%s_%d" % (e, i) for i, e in enumerate(uniq)]
    if cell == 'ortho':
        kw['cell'] = np.array([[11., 0, 0], [0, 12., 0], [0, 0, 13.]])
    elif cell == 'tri':
        kw['cell'] = np.array([[11., 0, 0], [2.5, 12., 0], [-1.5, 2.0, 13.]])
    if terms and n >= 2:
        pool_b = [(0, 1), (1, 2), (3, 4), (2, 0), (4, 1), (2, 3), (5, 0), (4, 5)]
        if sparse_bonds:
            pool_b = pool_b[:2]          # bonds among the first three atoms only; the other kinds of term reach every atom
        pool_a = [(0, 1, 2), (1, 2, 3), (2, 3, 4), (4, 1, 0), (3, 4, 5)]
        pool_d = [(0, 1, 2, 3), (1, 2, 3, 4), (4, 3, 1, 0), (2, 3, 4, 5)]
        pool_i = [(1, 0, 2, 3), (3, 1, 2, 4), (5, 4, 3, 2)]
        for name, plural, pool, nt in (('bond', 'bonds', pool_b, 3), ('angle', 'angles', pool_a, 2), ('dihedral', 'dihedrals', pool_d, 4), ('improper', 'impropers', pool_i, 5)):
            ts = [t for t in pool if max(t) < n]
            if not ts or (kinds is not None and name not in kinds):
                continue
            if rev:
                ts = [tuple(reversed(t)) for t in ts]        # every term listed from its other end
            if dup:
                # the same atoms listed twice with different types (multi-term torsions, a bond defined twice): rows are not keys
                ts = ts + [ts[0]]
            kw[plural] = ts
            kw[name + '_types'] = [(i + seed) % nt for i in range(len(ts))]
            if dup and nt > 1 and kw[name + '_types'][-1] == kw[name + '_types'][0]:
                kw[name + '_types'][-1] = (kw[name + '_types'][0] + 1) % nt
            if coeffs:
                kw[name + '_type_coeffs'] = ["%s_style %d.5 # %s%d%s" % (name, i + 1, name[0].upper(), i, "  a much longer coefficient comment" if long else "") for i in range(nt + (1 if unused else 0))]
            if extra:
                kw['extra_%s_labels' % name] = ['_x_%s_a' % name, '_x_%s_b' % name]
                kw['extra_%s_fields' % name] = [['%s%da' % (name[0], i), ('%s%d-long-value' if long else '%s%db') % (name[0], i)] for i in range(len(ts))]
    if coeffs:
        kw['pair_coeffs'] = ["lj %d.25 3.%d # %s%s" % (i + 1, i, e, "  long pair comment" if long else "") for i, e in enumerate(uniq)]
    if extra and n > 0:
        kw['extra_atom_labels'] = ['_site_occ', '_site_note']
        kw['extra_atom_fields'] = [['1.0', ('a-much-longer-note-%d' % i) if long else 'n%d' % i] for i in range(n)]
    if xrev:
        # same extra columns listed in the opposite order (values follow their labels)
        for k in list(kw):
            if k.startswith('extra_') and k.endswith('_labels'):
                kw[k] = list(reversed(kw[k]))
                f = k.replace('_labels', '_fields')
                kw[f] = [list(reversed(r)) for r in kw[f]]
    with quiet():
        return Atoms(**kw)


def view(a):
    """Abstract view of an Atoms object: plain python data (positions rounded), tables resolved."""
    def lst(x):
        return [] if x is None else [v.tolist() if hasattr(v, 'tolist') else v for v in x]

    def rows(x):
        return [tuple(str(v) for v in r) for r in np.asarray(x).reshape(len(x), -1)] if len(x) else []
    N = len(a.positions)
    labels = lst(a.atom_type_labels)
    els = lst(a.atom_type_elements)
    masses = [float(m) for m in lst(a.atom_type_masses)]
    pc = lst(a.pair_coeffs)
    atoms = []
    for i in range(N):
        t = int(a.atom_types[i])
        atoms.append(dict(pos=tuple(round(float(x), 6) for x in a.positions[i]), q=round(float(a.charges[i]), 9), grp=int(a.groups[i]),
                          label=str(labels[t]) if t < len(labels) else None, el=str(els[t]) if t < len(els) else None,
                          mass=masses[t] if t < len(masses) else None, pair=str(pc[t]) if pc and t < len(pc) else None,
                          extra=tuple(str(v) for v in a.extra_atom_fields[i]) if len(a.extra_atom_fields) == N else None))
    out = {'atoms': atoms}
    for name, plural in (('bond', 'bonds'), ('angle', 'angles'), ('dihedral', 'dihedrals'), ('improper', 'impropers')):
        tups = getattr(a, plural)
        types = getattr(a, name + '_types')
        coeffs = lst(getattr(a, name + '_type_coeffs'))
        xf = getattr(a, 'extra_%s_fields' % name)
        terms = []
        for j in range(len(tups)):
            t = int(types[j])
            terms.append(dict(atoms=tuple(int(v) for v in tups[j]), type=t, coeff=str(coeffs[t]) if coeffs and t < len(coeffs) else None,
                              extra=tuple(str(v) for v in xf[j]) if len(xf) == len(tups) else None))
        out[plural] = terms
    out['extra_labels'] = {k: list(getattr(a, 'extra_%s_labels' % k)) for k in ('atom', 'bond', 'angle', 'dihedral', 'improper')}
    out['cell'] = None if a.cell is None else [[round(float(x), 6) for x in r] for r in np.asarray(a.cell)]
    return out


def wf_problems(a):
    """Violations of the representation invariant WF (sizes, index ranges, type coverage)."""
    probs = []
    N = len(a.positions)
    for f in ('atom_types', 'charges', 'groups', 'extra_atom_fields'):
        if len(getattr(a, f)) != N:
            probs.append("len(%s)=%d != %d atoms" % (f, len(getattr(a, f)), N))
    T = len(a.atom_type_elements)
    if len(a.atom_type_masses) != T or len(a.atom_type_labels) != T:
        probs.append("atom type tables differ in length: elements %d masses %d labels %d" % (T, len(a.atom_type_masses), len(a.atom_type_labels)))
    if N and (min(int(t) for t in a.atom_types) < 0 or max(int(t) for t in a.atom_types) >= T):
        probs.append("atom type id out of range of the type table (%d types)" % T)
    if len(a.pair_coeffs) not in (0, T):
        probs.append("pair_coeffs has %d entries for %d atom types" % (len(a.pair_coeffs), T))
    if np.shape(a.extra_atom_fields)[1:] != (len(a.extra_atom_labels),):
        probs.append("extra_atom_fields width %r != %d labels" % (np.shape(a.extra_atom_fields), len(a.extra_atom_labels)))
    for name, plural, w in (('bond', 'bonds', 2), ('angle', 'angles', 3), ('dihedral', 'dihedrals', 4), ('improper', 'impropers', 4)):
        tups, types, xf = getattr(a, plural), getattr(a, name + '_types'), getattr(a, 'extra_%s_fields' % name)
        coeffs = getattr(a, name + '_type_coeffs')
        if len(tups) != len(types) or len(xf) != len(tups):
            probs.append("%s: %d tuples, %d types, %d extra rows" % (plural, len(tups), len(types), len(xf)))
        if len(tups):
            arr = np.asarray(tups)
            if arr.ndim != 2 or arr.shape[1] != w:
                probs.append("%s has shape %r" % (plural, arr.shape))
            elif arr.min() < 0 or arr.max() >= N:
                probs.append("%s refers to a non-existing atom (max index %d, %d atoms)" % (plural, arr.max(), N))
            if len(types) and min(int(t) for t in types) < 0:
                probs.append("negative %s type" % name)
            if len(coeffs) > 0 and len(types) and max(int(t) for t in types) >= len(coeffs):
                probs.append("%s type id %d has no coefficient entry (%d entries)" % (name, max(int(t) for t in types), len(coeffs)))
        if np.ndim(xf) == 2 and np.shape(xf)[1] != len(getattr(a, 'extra_%s_labels' % name)):
            probs.append("extra_%s_fields width %d != %d labels" % (name, np.shape(xf)[1], len(getattr(a, 'extra_%s_labels' % name))))
    return probs


def add_unused_type(a, el='Xe', mass=131.293):
    """Appends an atom type that no atom uses to the type tables of an existing structure (in place)."""
    a.atom_type_elements = list(a.atom_type_elements) + [el]
    a.atom_type_masses = np.append(np.asarray(a.atom_type_masses, dtype=float), mass)
    a.atom_type_labels = list(a.atom_type_labels) + [el]
    if len(a.pair_coeffs):
        a.pair_coeffs = list(a.pair_coeffs) + ["lj 9.0 9.0 # %s" % el]
    return a
