"""C08 bounded stage: self-replacement is a no-op; A -> B -> A restores the structure; second search finds none."""
import os, random
import numpy as np
from bounded.common import quiet
from bounded import geo, gen, repl

REPO = os.environ.get('MOFUN_REPO', '/repo')


def term_sets(a):
    def norm(t):
        t = tuple(int(x) for x in t)
        return min(t, t[::-1])
    return {k: sorted(norm(t) for t in getattr(a, k)) for k in ('bonds', 'angles', 'dihedrals', 'impropers')}


def check_self(spec):
    from mofun import Atoms, replace_pattern_in_structure
    if spec.get('file'):
        with quiet():
            S = Atoms.load(os.path.join(REPO, spec['file']))
            P = Atoms.load(os.path.join(REPO, spec['patfile']))
        case = dict(structure=S, cell=np.asarray(S.cell))
        # the linker file carries bonds which the CIF structure does not have: a replacement pattern WITH terms must add them (property C06),
        # so the no-op claim is checked with the bare pattern (elements + coordinates); the terms it would add are checked in C06
        with quiet():
            P = Atoms(elements=list(P.elements), positions=np.array(P.positions))
        sp, rp = P, P.copy()
    elif spec.get('shared'):
        # occurrences that share an atom (C N C, C N C N C: every N / inner C belongs to two C-N occurrences); replacing the pattern by itself keeps all of them
        from bounded import C07
        S = C07.chain(spec['shared'])
        case = dict(structure=S, cell=np.asarray(S.cell))
        sp, _ = C07.pats('keep-both')
        rp = sp.copy()
    else:
        case = repl.planted(spec['cell'], spec['pair'], spec['copies'], spec['seed'])
        sp, _ = repl.patterns(spec['pair'])
        rp = sp.copy()
        S = case['structure']
        if spec.get('with_terms'):
            # the structure carries several terms over the same atoms; the pattern carries only some of them (to override one term)
            from bounded import C06
            from mofun import Atoms
            S = C06.structure_with_terms(case, 1, random.Random(spec['seed']))
            case = dict(case, structure=S)
            n = len(sp.positions)
            with quiet():
                rp = Atoms(elements=list(sp.elements), positions=np.array(sp.positions), bonds=[(0, 1)], bond_types=[0], bond_type_coeffs=["harmonic 9 9 # P"],
                           angles=[(0, 1, 2)] if n >= 3 else [], angle_types=[0] if n >= 3 else [], angle_type_coeffs=["cosine 9 # P"] if n >= 3 else [],
                           pair_coeffs=["lj 1 1 # %s" % e for e in dict.fromkeys(sp.elements)])
    try:
        res, num = repl.do_replace(case, sp, rp, seed=spec.get('rng', 0), **({'atol': spec['atol']} if spec.get('atol') else {}))
    except Exception as e:
        return "raised %r" % (e,)
    if len(res.positions) != len(S.positions):
        return "atom count changed from %d to %d" % (len(S.positions), len(res.positions))
    if not np.allclose(res.positions, S.positions, atol=1e-6):
        k = int(np.argmax(np.abs(res.positions - S.positions).max(axis=1)))
        return "atom %d moved from %r to %r" % (k, list(S.positions[k]), list(res.positions[k]))
    if list(res.elements) != list(S.elements):
        return "elements changed"
    if not (np.array_equal(res.charges, S.charges) and np.array_equal(res.groups, S.groups)):
        return "charges or groups changed"
    if term_sets(res) != term_sets(S):
        return "the set of bonded / angled / torsion atom tuples changed"
    if num == 0 and not spec.get('allow_zero'):
        return "no match was found, the case is vacuous"
    return None


def check_aba(spec):
    """Substitute site pattern A by B, then B by A: multiset of (element, position mod lattice) restored; after A->B no A remains."""
    from mofun import Atoms, replace_pattern_in_structure, find_pattern_in_structure
    atol = spec.get('atol', 0.05)
    if spec.get('bridged'):
        # two occurrences of A = (C, N, O) that share their N atom (the second is the first turned by 180 degrees about an axis through N);
        # B keeps C and N, lists them in the opposite order, and has S in place of O
        a = np.array([[0., 0, 0], [1.3, 0, 0], [-0.6, 1.0, 0]])
        cell = geo.CELLS[spec['cell']]
        rot = geo.rotations(random.Random(spec['seed']), 1, include_axis=False)[0]
        n = np.array([0.45, 0.5, 0.55]).dot(cell)
        rel = [a[0] - a[1], a[2] - a[1]]
        pts = [n] + [n + rot.apply(v) for v in rel] + [n + rot.apply(v * np.array([-1, -1, 1])) for v in rel] + [np.array([0.1, 0.15, 0.2]).dot(cell)]
        with quiet():
            S = Atoms(elements=list('NCOCOF'), positions=np.array([geo.wrap(cell, p) for p in pts]), cell=cell)
            A = Atoms(elements=list('CNO'), positions=a)
            B = Atoms(elements=list('NCS'), positions=a[[1, 0, 2]])
        case = dict(structure=S, cell=cell, planted=[(1, 0, 2), (3, 0, 4)])
    else:
        case = repl.planted(spec['cell'], spec['pair'], spec['copies'], spec['seed'], noise=spec.get('noise', 0.0), tilt=spec.get('tilt'))
        A, B = repl.patterns(spec['pair'])
    S, cell = case['structure'], case['cell']
    random.seed(1)
    with quiet():
        try:
            before = find_pattern_in_structure(S, A, atol=atol)
            if len(before) < len(case['planted']):
                return "only %d of %d planted occurrences are found at atol=%r" % (len(before), len(case['planted']), atol)
            hk = dict(zip(('axisp1_idx', 'axisp2_idx', 'opoint_idx'), spec['hints'])) if spec.get('hints') else {}
            s1 = replace_pattern_in_structure(S, A, B, atol=atol, **hk)
            left = find_pattern_in_structure(s1, A, atol=atol)
            s2 = replace_pattern_in_structure(s1, B, A, atol=atol, **hk)
        except Exception as e:
            return "raised %r" % (e,)
    if len(left) != 0:
        return "after replacing every occurrence a second search still finds %d" % len(left)
    if spec.get('pair') == 'shrink-shared':
        return None      # B (two atoms) does not determine the frame A is put back into: only the second-search clause applies
    if sorted(s2.elements) != sorted(S.elements):
        return "A->B->A changed the elements: %r vs %r" % (sorted(s2.elements), sorted(S.elements))
    for e, p in zip(S.elements, S.positions):
        if not any(e == e2 and repl.lattice_equal(cell, p, p2, 1e-4 if not spec.get('noise') else 2 * atol) for e2, p2 in zip(s2.elements, s2.positions)):
            return "A->B->A lost atom %s at %r" % (e, list(np.round(p, 4)))
    return None


def replay(inp):
    msg = check_aba(inp) if inp.get('aba') else check_self(inp)
    return (msg is not None), (msg or 'holds')


REPLAY = {'selfrepl': replay}


def run(rec, tier, seed):
    rec.rule = ("self-replacement of 7 pattern shapes in 4 cells on planted structures (positions, elements, charges, groups, count, term tuple "
                "sets unchanged); substitutions A->B->A (single-atom, element-swap, collinear, element swap with a same-element atom displaced by 0.08 A, two occurrences bridged by a retained atom with the retained atoms listed in another order) restore the multiset of (element, position "
                "mod lattice) and a second search for A finds none; thorough adds UiO-66 linker self-replacement. distinct = specs")
    pairs = ['identical', 'swap-element', 'single-swap', 'collinear-swap', 'shrink-shared', 'sym-grow', 'grow-shared']
    for pi, pair in enumerate(pairs):
        for ci, cell in enumerate(geo.CELLS):
            if tier == 'quick' and (pi + ci) % 2:
                continue
            spec = dict(cell=cell, pair=pair, copies=3, seed=seed * 10 + pi + ci, rng=pi)
            msg = check_self(spec)
            rec.case(repr(sorted(spec.items())), group='self', sample=spec if len(rec.samples) < 2 else None)
            if msg:
                rec.fail('selfrepl', 'self-replacement', "%s on %r" % (msg, spec), spec, 'C08/self-replacement')
    # sites that are almost, but not exactly, aligned with the pattern as written (turned by 0.2 - 1.7 degrees)
    for ci, cell in enumerate(geo.CELLS):
        for pair in ('swap-element', 'collinear-swap'):
            if tier == 'quick' and (ci + (pair == 'collinear-swap')) % 2:
                continue
            spec = dict(cell=cell, pair=pair, copies=3, seed=seed * 10 + 40 + ci, aba=True, tilt=[0.004, 0.012, 0.03])
            msg = check_aba(spec)
            rec.case(repr(sorted(spec.items(), key=str)), group='A-B-A')
            if msg:
                rec.fail('selfrepl', 'reversible', "%s on %r" % (msg, spec), spec, 'C08/A-B-A')
    # the same substitutions with caller-supplied axis / orientation atoms (each role given to another atom than the default one)
    for ci, cell in enumerate(geo.CELLS):
        for hi, hints in enumerate(((1, 0, 2), (2, 0, 1), (1, 2, 0))):
            if tier == 'quick' and (ci + hi) % 3:
                continue
            spec = dict(cell=cell, pair='swap-element', copies=3, seed=seed * 10 + 60 + ci, aba=True, hints=list(hints))
            msg = check_aba(spec)
            rec.case(repr(sorted(spec.items())), group='A-B-A')
            if msg:
                rec.fail('selfrepl', 'reversible', "%s on %r" % (msg, spec), spec, 'C08/A-B-A')
    for ci, cell in enumerate(geo.CELLS):
        spec = dict(cell=cell, bridged=True, seed=seed * 10 + 70 + ci, aba=True)
        msg = check_aba(spec)
        rec.case(repr(sorted(spec.items())), group='A-B-A')
        if msg:
            rec.fail('selfrepl', 'reversible', "%s on %r" % (msg, spec), spec, 'C08/A-B-A')
    for shared in ('CNC', 'CNCNC'):
        for rng in (0, 1):
            spec = dict(shared=shared, rng=rng)
            msg = check_self(spec)
            rec.case(repr(sorted(spec.items())), group='self-shared-atoms')
            if msg:
                rec.fail('selfrepl', 'self-replacement', "%s on %r" % (msg, spec), spec, 'C08/self-replacement')
    for pi, pair in enumerate(['single-swap', 'swap-element', 'collinear-swap', 'nudge-swap', 'shrink-shared']):      # the last: B is a strict subset of A
        for ci, cell in enumerate(geo.CELLS):
            spec = dict(cell=cell, pair=pair, copies=3, seed=seed * 10 + 50 + pi + ci, aba=True)
            msg = check_aba(spec)
            rec.case(repr(sorted(spec.items())), group='A-B-A')
            if msg:
                rec.fail('selfrepl', 'reversible', "%s on %r" % (msg, spec), spec, 'C08/A-B-A')
    for ci, cell in enumerate(geo.CELLS):
        for pair in ('swap-element', 'shrink-shared'):
            spec = dict(cell=cell, pair=pair, copies=2, seed=seed * 10 + 80 + ci, with_terms=True)
            msg = check_self(spec)
            rec.case(repr(sorted(spec.items())), group='self-with-terms')
            if msg:
                rec.fail('selfrepl', 'self-replacement-terms', "%s on %r" % (msg, spec), spec, 'C08/self-replacement')
    for ci, cell in enumerate(('cubic', 'tri+', 'rhombo')):
        for pair in ('swap-element', 'collinear-swap'):
            spec = dict(cell=cell, pair=pair, copies=3, seed=seed * 10 + 90 + ci, aba=True, atol=0.15, noise=0.04)
            msg = check_aba(spec)
            rec.case(repr(sorted(spec.items())), group='A-B-A-wide-tolerance')
            if msg:
                rec.fail('selfrepl', 'reversible-atol', "%s on %r" % (msg, spec), spec, 'C08/A-B-A')
    if tier == 'thorough':
        # the linker in the triclinic file differs slightly from the linker file: it is found at atol = 0.2 only (as in the repository's own test)
        for f, pf, atol in (('tests/uio66/uio66.cif', 'tests/uio66/uio66-linker.cml', None), ('tests/uio66/uio66-triclinic.cif', 'tests/uio66/uio66-linker.cml', 0.2),
                            ('tests/uio66/uio66-triclinic.lmpdat', 'tests/uio66/uio66-linker.cml', 0.2)):
            spec = dict(file=f, patfile=pf, atol=atol)
            msg = check_self(spec)
            rec.case(f, group='mof')
            if msg:
                rec.fail('selfrepl', 'self-replacement-mof', "%s on %s" % (msg, f), spec, 'C08/self-replacement')
