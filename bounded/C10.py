"""C10 bounded stage: every non-empty deletion subset (in 3 listing orders) of small structures with all term
kinds and extra fields, on the real Atoms.__delitem__ / pop, against the abstract deletion spec.  Also validates the
assumed numpy contracts used by the proof (np.delete monotone bijection + rank form, sorted)."""
import copy, itertools, random
import numpy as np
from bounded.common import quiet
from bounded import gen


def expected_after_delete(v, idx):
    """Spec on the abstract view: survivors in order; a term survives iff none of its atoms is deleted; surviving
    tuples are renumbered to the survivors' new positions."""
    D = set(idx)
    surv = [i for i in range(len(v['atoms'])) if i not in D]
    new = {old: k for k, old in enumerate(surv)}
    out = {'atoms': [v['atoms'][i] for i in surv], 'cell': v['cell'], 'extra_labels': v['extra_labels']}
    for plural in ('bonds', 'angles', 'dihedrals', 'impropers'):
        out[plural] = [dict(t, atoms=tuple(new[x] for x in t['atoms'])) for t in v[plural] if not (set(t['atoms']) & D)]
    return out


def diff(a, b):
    for k in ('atoms', 'bonds', 'angles', 'dihedrals', 'impropers'):
        if a[k] != b[k]:
            n = min(len(a[k]), len(b[k]))
            j = next((i for i in range(n) if a[k][i] != b[k][i]), n)
            return "%s differ at %d: got %r, expected %r (lengths %d/%d)" % (k, j, a[k][j] if j < len(a[k]) else None, b[k][j] if j < len(b[k]) else None, len(a[k]), len(b[k]))
    return None


def check_delete(spec, idx, via='del'):
    with quiet():
        a = gen.mk(**spec)
        before = gen.view(a)
        try:
            if via == 'del':
                del a[list(idx)]
            else:
                a.pop(*idx)       # idx = () or (pos,)
        except Exception as e:
            return "raised %r" % (e,)
        after = gen.view(a)
        probs = gen.wf_problems(a)
    if via == 'pop':
        n = len(before['atoms'])
        pos = idx[0] if idx else -1
        idx = [pos if pos >= 0 else pos + n]
    d = diff(after, expected_after_delete(before, list(idx)))
    if d:
        return d
    if probs:
        return "inconsistent object after deletion: " + "; ".join(probs)
    return None


def replay_delete(inp):
    msg = check_delete(inp['spec'], inp['idx'], inp.get('via', 'del'))
    return (msg is not None), (msg or 'deletion agrees with the spec')


def check_np_axioms(rec):
    """Differential test of the assumed numpy / sorted contracts on all small arguments."""
    bad = None
    for n in range(0, 6):
        a = np.arange(100, 100 + n)
        for k in range(0, n + 1):
            for idx in itertools.permutations(range(n), k):
                res = np.delete(a, list(idx), axis=0) if k else a
                surv = [r for r in range(n) if r not in idx]
                ok = list(res) == [a[r] for r in surv] and len(res) == n - len(set(idx))
                for r in surv:
                    ok &= res[r - sum(1 for j in idx if j < r)] == a[r]
                s = sorted(idx, reverse=True)
                ok &= all(s[i] > s[i + 1] for i in range(len(s) - 1)) and set(s) == set(idx) and len(s) == len(idx)
                ok &= all(sum(1 for j in s if j < v) == sum(1 for j in idx if j < v) for v in range(n + 1))
                rec.case(('npdelete', n, idx), group='library-axioms')
                if not ok and bad is None:
                    bad = (n, idx)
    # duplicates in idx are harmless for the bijection form
    a = np.arange(5)
    if list(np.delete(a, [1, 1, 3], axis=0)) != [0, 2, 4]:
        bad = ('dup',)
    x = np.array([[5, 1], [2, 7]])
    np.subtract(x, 1, out=x, where=x > 2)
    if x.tolist() != [[4, 1], [2, 6]]:
        bad = ('subtract',)
    return bad


REPLAY = {'delete': replay_delete}


def run(rec, tier, seed):
    rec.rule = ("every non-empty subset of atoms of structures with n <= %d atoms (terms of all kinds, extra fields, 3 variants) deleted via "
                "del a[idx] with idx listed ascending, descending and shuffled; pop() / pop(i) / pop(-k); result compared with the abstract "
                "deletion spec and the representation invariant; distinct = (structure, index list); plus all small arguments of the assumed "
                "np.delete / sorted / np.subtract contracts" % (5 if tier == 'quick' else 6))
    bad = check_np_axioms(rec)
    if bad is not None:
        rec.error = "assumed numpy contract violated by the installed numpy for %r (checker error, not a property violation)" % (bad,)
        return
    rnd = random.Random(seed)
    nmax = 5 if tier == 'quick' else 6
    variants = [dict(terms=True, coeffs=True, extra=True, cell='ortho'), dict(terms=True, coeffs=False, extra=False, cell='tri'),
                dict(terms=False, coeffs=True, extra=True, cell=None), dict(terms=True, coeffs=True, extra=True, cell='ortho', dup=True),
                dict(terms=True, coeffs=True, extra=False, cell='ortho', sparse_bonds=True)]      # atoms above every bonded atom still occur in angles / torsions
    # every present / absent mixture of the four term kinds
    import itertools as _it
    allk = ['bond', 'angle', 'dihedral', 'improper']
    for r in range(1, 4):
        for ks in _it.combinations(allk, r):
            variants.append(dict(terms=True, coeffs=(r % 2 == 0), extra=(r % 2 == 1), cell='ortho', kinds=list(ks)))
    for n in range(1, nmax + 1):
        for vi, var in enumerate(variants):
            if 'kinds' in var and (n < 4 or (tier == 'quick' and n != 5)):
                continue
            spec = dict(n=n, seed=vi, **var)
            for k in range(1, n + 1):
                for sub in itertools.combinations(range(n), k):
                    orders = {tuple(sub), tuple(reversed(sub))}
                    sh = list(sub)
                    rnd.shuffle(sh)
                    orders.add(tuple(sh))
                    for idx in sorted(orders):
                        msg = check_delete(spec, idx)
                        rec.case(('del', n, vi, idx), sample={'structure': spec, 'delete': list(idx)} if len(rec.samples) < 2 else None, group='delitem')
                        if msg:
                            rec.fail('delete', 'delitem', "del a[%r] on %r: %s" % (list(idx), spec, msg), {'spec': spec, 'idx': list(idx)}, 'C10/__delitem__/post')
            for args in [()] + [(i,) for i in range(n)] + [(-i,) for i in range(1, n + 1)]:
                msg = check_delete(spec, args, via='pop')
                rec.case(('pop', n, vi, args), group='pop')
                if msg:
                    rec.fail('delete', 'pop', "pop(%s) on %r: %s" % (', '.join(map(str, args)), spec, msg), {'spec': spec, 'idx': list(args), 'via': 'pop'}, 'C10/pop/post')
    # larger structures (not exhaustive): half or more of 9-14 atoms deleted, index lists in random order
    for n in (9, 11, 14):
        for vi, var in enumerate(variants[:4]):
            spec = dict(n=n, seed=vi, **var)
            for trial in range(4 if tier == 'quick' else 16):
                k = rnd.randrange(n // 2, n - 1)
                idx = rnd.sample(range(n), k)
                msg = check_delete(spec, tuple(idx))
                rec.case(('del-large', n, vi, tuple(idx)), group='delitem-large')
                if msg:
                    rec.fail('delete', 'delitem', "del a[%r] on %r: %s" % (list(idx), spec, msg), {'spec': spec, 'idx': list(idx)}, 'C10/__delitem__/post')
    # a large, sparsely bonded structure (terms on one small fragment only) with many deleted atoms spread over the whole index range
    for vi, var in enumerate(variants[:2] + variants[3:4]):
        for n in (260, 400):
            spec = dict(n=n, seed=vi, **var)
            for trial in range(2 if tier == 'quick' else 8):
                k = rnd.randrange(13, 25)
                idx = [6 + (n - 7) * j // (k - 1) for j in range(k)]
                if trial % 2:
                    idx = idx + [rnd.choice([0, 2, 5])]
                    rnd.shuffle(idx)
                msg = check_delete(spec, tuple(idx))
                rec.case(('del-sparse', n, vi, tuple(idx)), group='delitem-large')
                if msg:
                    rec.fail('delete', 'delitem', "del a[%r] on %r: %s" % (list(idx), spec, msg), {'spec': spec, 'idx': list(idx)}, 'C10/__delitem__/post')
    rec.bounds = {'max_atoms_exhaustive': nmax, 'max_atoms_sampled': 400, 'variants': len(variants)}
