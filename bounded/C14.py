"""C14 exhaustive / bounded stage on the real code: nearest-element-within-tolerance over the whole mass table."""
import io, itertools
from bounded.common import quiet


def spec_find(m, d, table):
    """Nearest element within tolerance (set of acceptable answers), or None if nothing is within tolerance."""
    best = min(abs(v - m) for v in table.values())
    if not best < d:
        return None
    return {e for e, v in table.items() if abs(v - m) == best}


def check_mass(m, d):
    from mofun.helpers import guess_elements_from_masses
    from mofun.atomic_masses import ATOMIC_MASSES
    want = spec_find(m, d, ATOMIC_MASSES)
    try:
        got = guess_elements_from_masses([m], max_delta=d)
    except Exception as e:
        got = e
    if want is None:
        ok = isinstance(got, Exception)
    else:
        ok = isinstance(got, list) and len(got) == 1 and got[0] in want
    return ok, "mass %r tol %r: expected %s, got %r" % (m, d, 'an exception (no element within tolerance)' if want is None else sorted(want), got)


def replay_find_element(inp):
    ok, msg = check_mass(float(inp['mass']), float(inp['max_delta']))
    return (not ok), msg


def lmpdat_text(masses, comments=None):
    lines = ["x (written by test)", "", "%d atoms" % len(masses), "", "%d atom types" % len(masses), "",
             " 0.0 10.0 xlo xhi", " 0.0 10.0 ylo yhi", " 0.0 10.0 zlo zhi", "", "Masses", ""]
    for i, m in enumerate(masses):
        lines.append(" %d %10.6f%s" % (i + 1, m, (" # " + comments[i]) if comments else ""))
    lines += ["", "Atoms", ""]
    for i in range(len(masses)):
        lines.append(" %d 1 %d 0.0 %f 0.0 0.0" % (i + 1, i + 1, float(i)))
    return "\n".join(lines) + "\n"


def check_lmpdat(masses, guess_atol=0.1, comments=None):
    from mofun import Atoms
    from mofun.atomic_masses import ATOMIC_MASSES
    with quiet():
        a = Atoms.load_lmpdat(io.StringIO(lmpdat_text(masses, comments)), guess_atol=guess_atol)
    printed = [float("%10.6f" % m) for m in masses]
    wants = [spec_find(m, guess_atol, ATOMIC_MASSES) for m in printed]
    got = list(a.atom_type_elements)
    if any(w is None for w in wants):
        ok = got == [str(i + 1) for i in range(len(masses))]
        return ok, "masses %r: some mass matches no element, expected type numbers, got %r" % (masses, got)
    ok = len(got) == len(masses) and all(g in w for g, w in zip(got, wants))
    return ok, "masses %r: expected %r got %r" % (masses, [sorted(w) for w in wants], got)


def replay_lmpdat(inp):
    ok, msg = check_lmpdat([float(x) for x in inp['masses']], float(inp.get('guess_atol', 0.1)), inp.get('comments'))
    return (not ok), msg


def check_roundtrip(el):
    """An element whose mass is distinguishable survives write -> read."""
    from mofun import Atoms
    with quiet():
        a = Atoms(elements=[el], positions=[[0., 0., 0.]], cell=[[10, 0, 0], [0, 10, 0], [0, 0, 10]])
        f = io.StringIO()
        a.save_lmpdat(f)
        text = f.getvalue().replace("# " + el, "")       # drop label comments: masses only
        text = "\n".join(l.split('#')[0].rstrip() if l.strip().startswith('1 ') and 'Masses' not in l else l for l in text.splitlines()) + "\n"
        b = Atoms.load_lmpdat(io.StringIO(text))
    got = list(b.atom_type_elements)
    return got == [el], "element %s written and re-read as %r" % (el, got)


def replay_roundtrip(inp):
    ok, msg = check_roundtrip(inp['element'])
    return (not ok), msg


def replay_sequence(inp):
    for m, tol in inp['sequence']:
        ok, msg = check_lmpdat([float(m), 12.0107], guess_atol=float(tol))
        if not ok:
            return True, "in the load sequence %r: %s" % (inp['sequence'], msg)
    return False, 'every load of the sequence agrees with the table'


def replay_table(inp):
    from mofun.atomic_masses import ATOMIC_MASSES
    from specs.periodic_table import atomic_number
    e = inp['symbol']
    bad = e in ATOMIC_MASSES and (atomic_number(e) is None or any(o != e and atomic_number(o) == atomic_number(e) for o in ATOMIC_MASSES))
    return bad, ("the mass table holds %r = %r, which is not a periodic-table element of its own" % (e, ATOMIC_MASSES.get(e))) if bad else "entry is an element (or absent)"


REPLAY = {'mass-table': replay_table, 'lmpdat_seq': replay_sequence, 'find_element': replay_find_element, 'lmpdat_masses': replay_lmpdat, 'roundtrip': replay_roundtrip}


def run(rec, tier, seed):
    from mofun.atomic_masses import ATOMIC_MASSES
    T = ATOMIC_MASSES
    rec.rule = ("exhaustive over the 117-row mass table: every element mass, every midpoint between neighbours in mass order, "
                "both sides (+-1e-9, +-1e-4) of every tolerance boundary M+-tol for tol in {0.1, 0.01, 0.5}, non-atomic masses below/"
                "between/above; LAMMPS files with masses only (single types and pairs); write/read of every element. "
                "distinct = distinct (mass, tol) inputs; non-trivial = all")
    rec.exhaustive = True
    # the table the guesses are taken from holds periodic-table elements only, each once ("no element is invented")
    from specs.periodic_table import atomic_number
    zs = {}
    for e in T:
        z = atomic_number(e)
        rec.case(('table-entry', e), group='mass-table')
        if z is None or z in zs:
            rec.fail('mass-table', 'mass-table', "the mass table entry %r (%r) is not an element of the periodic table%s" % (
                e, T[e], '' if z is None else ' of its own: same element as %r' % zs[z]), {'symbol': e}, contract='C14/mass-table/elements-only')
        else:
            zs[z] = e
    tols = [0.1, 0.01, 0.5] if tier == 'quick' else [0.1, 0.01, 0.5, 1.0, 0.001, 2.0]
    order = sorted(T.items(), key=lambda kv: kv[1])
    masses = set()
    for (e, m) in order:
        masses.add(m)
    for (e1, m1), (e2, m2) in zip(order, order[1:]):
        mid = (m1 + m2) / 2
        masses.update([mid, mid - 1e-9, mid + 1e-9])
    extra = [0.1, 0.5, 2.5, 3.0, 5.5, 8.0, 300.0, 400.0, 1700.0, 0.0]
    for d in tols:
        ms = set(masses)
        for (e, m) in order:
            for s in (-1, 1):
                for eps in (-1e-4, -1e-9, 0.0, 1e-9, 1e-4):
                    ms.add(m + s * d + eps)
        ms.update(extra)
        for m in sorted(ms):
            ok, msg = check_mass(m, d)
            rec.case((m, d), sample={'mass': m, 'tol': d} if len(rec.samples) < 2 else None, group='find_element')
            if not ok:
                rec.fail('find_element', 'find_element', msg, {'mass': m, 'max_delta': d}, contract='C14/find_element/post')
    # load_lmpdat with masses only
    singles = [[m] for _, m in order] + [[m - 0.04] for _, m in order] + [[m + 0.04] for _, m in order]
    pairs = [[order[i][1], order[j][1]] for i in range(0, len(order), 7) for j in range(3, len(order), 11)]
    fallback = [[12.0107, 2.5], [2.5, 12.0107, 15.9994], [500.0], [39.0983, 58.6934, 400.0]]
    # many exactly matching types and ONE mass just outside the tolerance of every element, at every position of the list
    exact = [1.00794, 12.0107, 14.0067, 15.9994, 91.224, 63.546, 65.39]
    for off in (14.25, 12.5, 1.15, 16.11, 91.45):
        for pos in (0, 3, len(exact)):
            fallback.append(exact[:pos] + [off] + exact[pos:])
    for ms in singles + pairs + fallback:
        try:
            ok, msg = check_lmpdat(ms)
        except Exception as e:
            ok, msg = False, "load_lmpdat raised %r for masses %r" % (e, ms)
        rec.case(('lmp', tuple(ms)), sample={'lmpdat_masses': ms} if len(rec.samples) < 4 else None, group='load_lmpdat')
        if not ok:
            rec.fail('lmpdat_masses', 'load_lmpdat-masses', msg, {'masses': ms}, contract='C14/load_lmpdat')
    # Masses lines that carry a label comment: the label is not a mass -- elements still come from the masses, and a non-atomic mass still
    # means type numbers for all types, whatever the comment says
    for ms, cm in (([2.014], ['H']), ([12.0107, 2.5], ['C', 'H']), ([12.0107, 15.9994], ['O', 'C']), ([500.0, 12.0107], ['Zr', 'C']), ([12.0107, 14.0067], ['C_R', 'N_3']),
                   ([1.00794, 400.0], ['H_', 'Du'])):
        try:
            ok, msg = check_lmpdat(ms, comments=cm)
        except Exception as e:
            ok, msg = False, "load_lmpdat raised %r for masses %r" % (e, ms)
        rec.case(('lmp-comment', tuple(ms), tuple(cm)), group='load_lmpdat')
        if not ok:
            rec.fail('lmpdat_masses', 'load_lmpdat-masses', msg + " (Masses comments %r)" % (cm,), {'masses': ms, 'comments': cm}, contract='C14/load_lmpdat')
    # write/read survival of distinguishable elements
    vals = sorted(T.values())
    for e, m in order:
        gap = min(abs(m - v) for k, v in T.items() if k != e)
        if gap <= 2e-6:
            continue
        try:
            ok, msg = check_roundtrip(e)
        except Exception as ex:
            ok, msg = False, "round trip of %s raised %r" % (e, ex)
        rec.case(('rt', e), group='roundtrip')
        if not ok:
            rec.fail('roundtrip', 'roundtrip', msg, {'element': e}, contract='C14/roundtrip')
    # no hidden state between loads: a mass matched under a wide tolerance must not stay matched under a strict one, and vice versa
    for seq in ([(12.4, 0.5), (12.4, 0.1), (12.4, 0.01)], [(296.5, 3.0), (296.5, 0.1)], [(58.8, 0.05), (58.8, 0.5), (58.8, 0.05)], [(2.5, 2.0), (2.5, 0.1), (39.5, 0.6), (39.5, 0.1)]):
        for (m, tol) in seq:
            try:
                ok, msg = check_lmpdat([m, 12.0107], guess_atol=tol)
            except Exception as e:
                ok, msg = False, "load_lmpdat raised %r" % (e,)
            rec.case(('seq', m, tol, tuple(seq)), group='load-sequence')
            if not ok:
                rec.fail('lmpdat_seq', 'load_lmpdat-sequence', "in the load sequence %r: %s" % (seq, msg), {'sequence': [list(x) for x in seq]}, contract='C14/load_lmpdat')
    rec.bounds = {'tolerances': tols, 'table_rows': len(T)}
