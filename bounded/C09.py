"""C09 bounded stage: operation histories on real Atoms objects; after every step the real object is compared with an abstract model
advanced by the specs of C10 / C11 / C12 (deletion, extension, replication, subset, copy, pop) and must satisfy the representation invariant;
at the end of every history the object is written as a LAMMPS data file whose declared counts match and which reads back to the same structure."""
import copy, io, itertools, random, re
import numpy as np
from bounded.common import quiet
from bounded import gen
from bounded.C10 import expected_after_delete
from bounded.C11 import expected_extend, merge_labels

KINDS = ('bonds', 'angles', 'dihedrals', 'impropers')

FRAGS = [dict(n=1, seed=5, terms=False, coeffs=True, extra=False, cell=None),
         dict(n=2, seed=6, terms=True, coeffs=True, extra=False, cell=None, kinds=['bond'], long=True),      # coefficient strings longer than any in the seeds' tables
         dict(n=4, seed=7, terms=True, coeffs=True, extra=False, cell=None),
         dict(n=2, seed=8, terms=True, coeffs=True, extra=True, cell=None, kinds=['bond'])]      # brings extra (CIF) columns the seeds lack
SEEDS = [dict(n=3, seed=0, terms=True, coeffs=True, extra=False, cell='ortho'),
         dict(n=4, seed=1, terms=True, coeffs=True, extra=False, cell='tri'),
         dict(n=2, seed=2, terms=False, coeffs=True, extra=False, cell='ortho'),
         dict(n=4, seed=3, terms=True, coeffs=False, extra=False, cell='ortho')]


def strip(v):
    """Abstract state used for comparison: resolved per-atom data and terms with resolved coefficient text."""
    out = {'atoms': [{k: a[k] for k in ('pos', 'q', 'grp', 'label', 'el', 'mass', 'pair')} for a in v['atoms']]}
    for k in KINDS:
        out[k] = [{'atoms': t['atoms'], 'coeff': t['coeff']} for t in v[k]]
    return out


def model_apply(model, op, frag_views):
    kind = op[0]
    if kind == 'del':
        m = expected_after_delete(dict(model, cell=None, extra_labels=None), list(op[1]))
        return {k: m[k] for k in ('atoms',) + KINDS}
    if kind == 'pop':
        n = len(model['atoms'])
        m = expected_after_delete(dict(model, cell=None, extra_labels=None), [n - 1])
        return {k: m[k] for k in ('atoms',) + KINDS}
    if kind == 'extend':
        fv = frag_views[op[1]]
        m = expected_extend(dict(model, extra_labels=None), fv, dict(op[2]))
        out = {'atoms': [{k: a[k] for k in ('pos', 'q', 'grp', 'label', 'el', 'mass', 'pair')} for a in m['atoms']]}
        for k in KINDS:
            out[k] = [{'atoms': t['atoms'], 'coeff': t['coeff']} for t in m[k]]
        return out
    if kind == 'replicate':
        reps = op[1]
        N = len(model['atoms'])
        cell = op[2]
        atoms, terms = [], {k: [] for k in KINDS}
        blk = 0
        # image order of the library: meshgrid(...).T.reshape(-1,3): x fastest
        mults = [(i, j, k) for k in range(reps[2]) for j in range(reps[1]) for i in range(reps[0])]
        mults = [(0, 0, 0)] + [m for m in mults if m != (0, 0, 0)]
        for (i, j, k) in mults:
            shift = i * cell[0] + j * cell[1] + k * cell[2]
            for a in model['atoms']:
                b = dict(a)
                b['pos'] = tuple(round(float(x), 6) for x in (np.array(a['pos']) + shift))
                atoms.append(b)
            for kk in KINDS:
                for t in model[kk]:
                    terms[kk].append({'atoms': tuple(x + blk * N for x in t['atoms']), 'coeff': t['coeff']})
            blk += 1
        return dict(atoms=atoms, **terms)
    if kind == 'subset':
        return dict(atoms=[dict(model['atoms'][i]) for i in op[1]], **{k: [] for k in KINDS})
    if kind == 'copy':
        return copy.deepcopy(model)
    raise ValueError(kind)


def real_apply(a, op, frags):
    kind = op[0]
    if kind == 'del':
        del a[list(op[1])]
        return a
    if kind == 'pop':
        a.pop()
        return a
    if kind == 'extend':
        a.extend(frags[op[1]], structure_index_map=dict(op[2]))
        return a
    if kind == 'replicate':
        return a.replicate(op[1])
    if kind == 'subset':
        return a[list(op[1])]
    if kind == 'copy':
        return a.copy()
    raise ValueError(kind)


def same(got, want):
    if len(got['atoms']) != len(want['atoms']):
        return "%d atoms, model has %d" % (len(got['atoms']), len(want['atoms']))
    for i, (g, w) in enumerate(zip(got['atoms'], want['atoms'])):
        for k in ('q', 'grp', 'label', 'el', 'mass', 'pair'):
            if g[k] != w[k]:
                return "atom %d resolves to %s=%r, it was defined with %r" % (i, k, g[k], w[k])
        if not np.allclose(g['pos'], w['pos'], atol=1e-5):
            return "atom %d at %r, model %r" % (i, g['pos'], w['pos'])
    for k in KINDS:
        if [t['atoms'] for t in got[k]] != [t['atoms'] for t in want[k]]:
            return "%s %r, model %r" % (k, [t['atoms'] for t in got[k]], [t['atoms'] for t in want[k]])
        for g, w in zip(got[k], want[k]):
            if g['coeff'] != w['coeff']:
                return "%s %r resolves to %r, it was defined with %r" % (k[:-1], g['atoms'], g['coeff'], w['coeff'])
    return None


def lammps_check(a):
    """Writable as a LAMMPS data file whose declared counts match its contents and which reads back to the same structure."""
    from mofun import Atoms
    f = io.StringIO()
    a.save_lmpdat(f)
    text = f.getvalue()
    counts = {m.group(2): int(m.group(1)) for m in re.finditer(r'^\s*(\d+) (atoms|bonds|angles|dihedrals|impropers|atom types|bond types|angle types|dihedral types|improper types)\s*$', text, re.M)}
    sections = {}
    cur = None
    for line in text.splitlines():
        s = line.split('#')[0].strip()
        if s in ('Masses', 'Pair Coeffs', 'Bond Coeffs', 'Angle Coeffs', 'Dihedral Coeffs', 'Improper Coeffs', 'Atoms', 'Bonds', 'Angles', 'Dihedrals', 'Impropers'):
            cur = s
            sections[cur] = 0
        elif cur and s:
            sections[cur] += 1
    want = {'atoms': 'Atoms', 'bonds': 'Bonds', 'angles': 'Angles', 'dihedrals': 'Dihedrals', 'impropers': 'Impropers'}
    for k, sec in want.items():
        if counts.get(k, 0) != sections.get(sec, 0):
            return "header declares %d %s but the %s section has %d lines" % (counts.get(k, 0), k, sec, sections.get(sec, 0))
    for k, sec, key in (('atom types', 'Masses', 'atom_types'), ('bond types', 'Bond Coeffs', 'bond_types'), ('angle types', 'Angle Coeffs', 'angle_types'),
                        ('dihedral types', 'Dihedral Coeffs', 'dihedral_types'), ('improper types', 'Improper Coeffs', 'improper_types')):
        declared = counts.get(k, 0)
        if sec in sections and sections[sec] != declared:
            return "header declares %d %s but the %s section has %d lines" % (declared, k, sec, sections[sec])
        if key != 'atom_types':
            tab = getattr(a, key[:-1] + '_coeffs')
            if len(tab) and (sections.get(sec, 0) != len(tab) or declared != len(tab)):
                return "the structure has %d %s coefficient entries; the file declares %d %s and its %s section has %d lines" % (
                    len(tab), key[:-6], declared, k, sec, sections.get(sec, 0))
        ids = getattr(a, key)
        if len(ids) and int(max(ids)) + 1 > declared:
            return "type id %d in use but only %d %s declared" % (int(max(ids)) + 1, declared, k)
    b = Atoms.load_lmpdat(io.StringIO(text))
    va, vb = gen.view(a), gen.view(b)
    if len(va['atoms']) != len(vb['atoms']):
        return "file reads back with %d atoms instead of %d" % (len(vb['atoms']), len(va['atoms']))
    for i, (x, y) in enumerate(zip(va['atoms'], vb['atoms'])):
        if not np.allclose(x['pos'], y['pos'], atol=2e-6) or abs(x['q'] - y['q']) > 2e-6 or x['grp'] != y['grp'] or x['label'] != y['label']:
            return "atom %d reads back as %r, written %r" % (i, y, x)
    for k in KINDS:
        if [t['atoms'] for t in va[k]] != [t['atoms'] for t in vb[k]]:
            return "%s read back %r, written %r" % (k, [t['atoms'] for t in vb[k]], [t['atoms'] for t in va[k]])
        for x, y in zip(va[k], vb[k]):
            if x['coeff'] is not None and (y['coeff'] is None or x['coeff'].split() != y['coeff'].split()):
                return "%s %r coefficient read back %r, written %r" % (k[:-1], x['atoms'], y['coeff'], x['coeff'])
    return None


def run_history(seed_spec, ops):
    with quiet():
        frags = [gen.mk(**f) for f in FRAGS]
        frag_views = [gen.view(f) for f in frags]
        a = gen.mk(**seed_spec)
        model = strip(gen.view(a))
        siblings = []
        for step, op in enumerate(ops):
            if op[0] == 'replicate':
                op = ('replicate', op[1], np.asarray(a.cell, dtype=float))
            before = a
            try:
                a = real_apply(a, op, frags)
            except Exception as e:
                return "step %d %r raised %r" % (step, op[:2], e)
            if a is not before:
                # the operation returned a new object: the one it was applied to stays a separate, unchanged, consistent object from now on
                siblings.append((step, before, gen.view(before)))
            for s0, sib, sview in siblings:
                if gen.view(sib) != sview:
                    return "step %d %r changed the object that step %d had left behind (it is a separate object)" % (step, op[:2], s0)
                probs = gen.wf_problems(sib)
                if probs:
                    return "after step %d %r the object that step %d had left behind is inconsistent: %s" % (step, op[:2], s0, "; ".join(probs))
            model = model_apply(model, op, frag_views)
            msg = same(strip(gen.view(a)), model)
            if msg:
                return "after step %d %r: %s" % (step, op[:2], msg)
            probs = gen.wf_problems(a)
            if probs:
                return "after step %d %r the object is inconsistent: %s" % (step, op[:2], "; ".join(probs))
            if [gen.view(f) for f in frags] != frag_views:
                return "step %d %r modified the fragment that was added" % (step, op[:2])
        if len(a.positions) >= 1:
            try:
                msg = lammps_check(a)
            except Exception as e:
                msg = "writing / re-reading the LAMMPS data file raised %r" % (e,)
            if msg:
                return "at the end of the history: " + msg
    return None


def check_shared_inputs(seed_spec, op):
    """Two objects constructed from the SAME numpy arrays (frames of one system): operating on one leaves the other, and the arrays, alone."""
    from mofun import Atoms
    with quiet():
        src = gen.mk(**seed_spec)
        frags = [gen.mk(**f) for f in FRAGS]
        arrs = dict(atom_types=np.array(src.atom_types), positions=np.array(src.positions, dtype=float), charges=np.array(src.charges, dtype=float),
                    groups=np.array(src.groups, dtype=int))
        saved = {k: v.copy() for k, v in arrs.items()}
        tables = dict(atom_type_masses=list(src.atom_type_masses), atom_type_elements=list(src.atom_type_elements), atom_type_labels=list(src.atom_type_labels),
                      pair_coeffs=list(src.pair_coeffs), cell=np.array(src.cell))
        one = Atoms(**arrs, **tables)
        two = Atoms(**arrs, **tables)
        v2 = gen.view(two)
        try:
            if op == 'extend-mapped':
                one.extend(frags[1], structure_index_map={0: 0})
            elif op == 'translate':
                one.translate(np.array([0.5, -0.25, 1.0]))
            elif op == 'delete':
                del one[[0]]
            elif op == 'set-charge':
                one.charges[0] = 9.0
                one.groups[0] = 5
        except Exception as e:
            return "%s raised %r" % (op, e)
        if gen.view(two) != v2:
            return "%s on one object changed another object constructed from the same arrays" % op
        for k, v in arrs.items():
            if not np.array_equal(v, saved[k]):
                return "%s on an object changed the %s array it was constructed from" % (op, k)
        probs = gen.wf_problems(two) + gen.wf_problems(one)
        if probs:
            return "after %s: %s" % (op, "; ".join(probs))
    return None


def candidate_ops(n_atoms, rnd, breadth):
    ops = [('copy',), ('replicate', (1, 1, 2))]
    if n_atoms >= 1:
        ops.append(('pop',))
        ops.append(('del', tuple(range(n_atoms))))                       # remove all atoms
        subs = [s for k in (1, 2) for s in itertools.combinations(range(n_atoms), k)]
        rnd.shuffle(subs)
        ops += [('del', s) for s in subs[:breadth]]
        ops.append(('subset', tuple(sorted(rnd.sample(range(n_atoms), min(n_atoms, 2))))))
    for fi, f in enumerate(FRAGS):
        ops.append(('extend', fi, ()))
        if n_atoms >= 1:
            nb = f['n']
            keys = rnd.sample(range(nb), 1)
            ops.append(('extend', fi, tuple(zip(keys, rnd.sample(range(n_atoms), 1)))))
            if nb >= 2 and n_atoms >= 2:
                ks = sorted(rnd.sample(range(nb), 2))
                ops.append(('extend', fi, tuple(zip(ks[::-1], rnd.sample(range(n_atoms), 2)))))
    return ops


def count_after(n, op):
    if op[0] == 'del':
        return n - len(op[1])
    if op[0] == 'pop':
        return n - 1
    if op[0] == 'extend':
        return n + FRAGS[op[1]]['n'] - len(op[2])
    if op[0] == 'replicate':
        return n * 2
    if op[0] == 'subset':
        return len(op[1])
    return n


def replay(inp):
    ops = [tuple(tuple(x) if isinstance(x, list) else x for x in op) for op in inp['ops']]
    ops = [tuple(tuple(tuple(p) if isinstance(p, list) else p for p in x) if isinstance(x, tuple) else x for x in op) for op in ops]
    msg = run_history(inp['seed_spec'], ops)
    return (msg is not None), (msg or 'history keeps the object consistent')


def replay_shared(inp):
    msg = check_shared_inputs(inp['seed_spec'], inp['op'])
    return (msg is not None), (msg or 'objects constructed from the same arrays are independent')


REPLAY = {'history': replay, 'shared-inputs': replay_shared}


def run(rec, tier, seed):
    depth = 3
    breadth = 2 if tier == 'quick' else 4
    rec.rule = ("operation histories of depth %d over {delete (subsets incl. all atoms), pop, extend by 3 fragments with empty / partial / reversed identity "
                "maps, replicate (1,1,2), subset, copy} from 4 seed structures (with / without terms and coefficient tables); after every step: real "
                "object == abstract model (specs of C10/C11/C12) on resolved label/element/mass/pair/coefficient text, representation invariant, "
                "fragment unmodified; at the end: LAMMPS data file with matching declared counts that reads back. distinct = histories" % depth)
    rnd = random.Random(seed)
    for si, seed_spec in enumerate(SEEDS):
        for op in ('extend-mapped', 'translate', 'delete', 'set-charge'):
            if op == 'extend-mapped' and seed_spec['coeffs'] != FRAGS[1]['coeffs']:
                continue        # outside the compatibility precondition of extend (one side has coefficient tables, the other has none)
            msg = check_shared_inputs(seed_spec, op)
            rec.case(('shared-inputs', si, op), group='shared-input-arrays')
            if msg:
                rec.fail('shared-inputs', 'shared-inputs', "%s [seed %r]" % (msg, seed_spec), {'seed_spec': seed_spec, 'op': op}, 'C09/independent-objects')
    for si, seed_spec in enumerate(SEEDS):
        def rec_hist(prefix, n):
            if len(prefix) == depth:
                msg = run_history(seed_spec, prefix)
                rec.case((si, repr(prefix)), sample={'seed': seed_spec, 'ops': [list(map(str, o)) for o in prefix]} if len(rec.samples) < 2 else None)
                if msg:
                    rec.fail('history', 'history', "%s  [seed %r, ops %r]" % (msg, seed_spec, prefix), {'seed_spec': seed_spec, 'ops': [list(o) for o in prefix]}, 'C09/WF+Preserve')
                return
            for op in candidate_ops(n, rnd, breadth):
                if op[0] == 'extend' and seed_spec['coeffs'] != FRAGS[op[1]]['coeffs']:
                    continue
                if op[0] == 'replicate' and (seed_spec['cell'] is None or n == 0 or n > 8):
                    continue
                if len(prefix) >= 1 and rnd.random() < (0.55 if tier == 'quick' else 0.2):
                    continue
                rec_hist(prefix + [op], count_after(n, op))
        rec_hist([], seed_spec['n'])
