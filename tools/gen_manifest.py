#!/usr/bin/env python3
"""Regenerates MANIFEST.json from the table below (kept next to the checks so both change together)."""
import json, os
ROOT = os.path.dirname(os.path.dirname(os.path.abspath(__file__)))
props = [json.loads(l)['id'] for l in open(os.path.join(ROOT, 'properties.jsonl'))]

CLAIMS = {}      # id -> dict(category, text, note, technique, design_ref)
exec(open(os.path.join(ROOT, 'tools', 'claims.py')).read())

checks = []
na = []
for p in props:
    c = CLAIMS.get(p)
    if c is None or c.get('not_applicable'):
        na.append({'property_id': p, 'reason': (c or {}).get('not_applicable', 'check not built yet (see DESIGN.md section 10)')})
        continue
    checks.append({
        'property_id': p,
        'quick_cmd': 'bin/check %s quick' % p,
        'thorough_cmd': 'bin/check %s thorough' % p,
        'evidence_file': 'evidence/%s.json' % p,
        'replay_cmd_template': '/venv/bin/python bin/replay {path}',
        'engine': 'pyvc',
        'level_claimed': {'category': c['category'], 'text': c['text'], 'design_ref': c.get('design_ref', 'DESIGN.md section 7/' + p)},
        'level_note': c['note'],
        'technique': c['technique'],
    })
m = {
    'version': 1,
    'setup_cmd': 'sh bin/setup',
    'hooks': {'guard': 'MOFUN_VERIF', 'enable': 'none needed: contracts are sidecar files in /verif/contracts, /repo is read, never instrumented',
              'baseline_off_cmd': 'cd /repo && /venv/bin/python -m pytest -ra -q -p no:cacheprovider --timeout=900 --continue-on-collection-errors',
              'source_commits': [], 'add_only': True},
    'engines': [{'name': 'pyvc', 'path': 'pyvc/', 'serves_properties': [c['property_id'] for c in checks],
                 'kind_free_text': 'own verification-condition generator: symbolic execution of the real Python AST of /repo functions against sidecar contracts (pre/post, loop invariants), VCs discharged by z3 5.1 with cvc5 1.0.3 as second back end; bounded/exhaustive native stage (bounded/) as labelled stand-in'}],
    'checks': checks,
    'not_applicable': na,
    'notes': 'Exit codes: 0 held, 1 violation (VIOLATION line), 2 undecided (never reported as violation), 3 checker error. See DESIGN.md.',
}
json.dump(m, open(os.path.join(ROOT, 'MANIFEST.json'), 'w'), indent=1)
print("MANIFEST: %d checks, %d not applicable" % (len(checks), len(na)))
