# id -> claim.  Edited together with the contracts.  (exec'd by tools/gen_manifest.py)
CLAIMS['C14'] = dict(
    category='proof',
    text="Verification conditions generated from the real AST of helpers.guess_elements_from_masses/find_element with the real 117-row "
         "mass table: the loop over the constant table is cut at an invariant, one VC per row, so the postcondition 'result is within "
         "tolerance and no element is closer; raises iff nothing is within tolerance' is discharged by z3 for all real masses and all "
         "positive tolerances (no bound). The fallback block of load_lmpdat is verified against that contract. An exhaustive native "
         "stage over the table (every element, midpoints, both sides of every tolerance boundary, masses-only LAMMPS files) runs the "
         "real doubles.",
    note="Assumes A2 (float arithmetic treated as real arithmetic in the proof; the exhaustive stage runs real doubles), soundness of "
         "z3/cvc5 and of the pyvc interpreter; the try-block contract assumes masses and atom_type_masses have equal length.",
    technique='contract-based deductive verification (own VC generator from the Python AST, z3/cvc5) + exhaustive table enumeration')
