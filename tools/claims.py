# id -> claim.  Edited together with the contracts.  (exec'd by tools/gen_manifest.py)
CLAIMS['C14'] = dict(
    category='proof',
    text="Verification conditions generated from the real AST of helpers.guess_elements_from_masses/find_element with the real 117-row "
         "mass table: the loop over the constant table is cut at an invariant, one VC per row, so the postcondition 'result is within "
         "tolerance and no element is closer; raises iff nothing is within tolerance' is discharged by z3 for all real masses and all "
         "positive tolerances (no bound). The fallback block of load_lmpdat is verified against that contract. An exhaustive native "
         "stage over the table (every element, midpoints, both sides of every tolerance boundary, masses-only LAMMPS files) runs the "
         "real doubles.",
    note="Assumes A2 (float arithmetic treated as real arithmetic in the proof; the exhaustive stage runs real doubles), soundness of "
         "z3/cvc5 and of the pyvc interpreter; the try-block contract assumes masses and atom_type_masses have equal length.",
    technique='contract-based deductive verification (own VC generator from the Python AST, z3/cvc5) + exhaustive table enumeration')
CLAIMS['C18'] = dict(
    category='proof',
    text="Spec functions for the UFF functional forms (Rappe et al. 1992, eqs 2-4, 6, 13, 16, 17 and the documented special cases) are "
         "written as z3 terms; the real AST of guess_bond_order, bond_params, angle_params, dihedral_params and pair_coeffs is executed "
         "symbolically with the parameter table as an arbitrary real-valued map and atom types as symbolic strings, and 'result == spec' "
         "is discharged on every path (modularly: angle/dihedral against the contracts of bond_params/guess_bond_order). Reversal symmetry "
         "and the end-atom dependency are lemmas over the spec functions. Finiteness, positivity, style and symmetry on the real 221-row "
         "table are decided by exhaustive enumeration against an independent native implementation (pairs exhaustively; triples and "
         "quadruples exhaustively in thorough, stratified in quick).",
    note="Assumes A2 (reals for floats), log/sqrt/cos/sin uninterpreted with three identities, non-vanishing denominators (checked on the "
         "real table by the enumeration), z3/cvc5 and pyvc soundness. The enumeration is labelled exhaustive/stratified, never proved.",
    technique='contract-based deductive verification against spec functions (own VC generator, z3 nonlinear reals) + exhaustive table enumeration')
CLAIMS['C10'] = dict(
    category='proof',
    text="Both loops of Atoms._delete_and_reindex_atom_index_array are cut at inductive invariants and its postcondition (rows removed iff "
         "they mention a deleted index; survivors keep order; every surviving entry v becomes v minus the number of deleted indices below "
         "v) is discharged for arrays of arbitrary size and width 2-4; Atoms.__delitem__ is verified modularly against that contract "
         "(16 paths: each term kind present/absent): all five per-atom arrays are deleted with the same index list, surviving terms point "
         "to the positions where their atoms now live, types and extra fields follow, tables untouched, the size invariant is "
         "re-established; pop is verified against the contract of __delitem__. No bound on sizes. A bounded stage deletes every subset "
         "of structures with <= 5 atoms on the real code and cross-checks the assumed numpy contracts.",
    note="numpy primitives (np.delete monotone-bijection and rank form, np.subtract where/out, np.any) and sorted enter as assumed "
         "contracts, differentially tested on all small arguments; A1 mathematical integers; A5 value semantics for arrays; requires: "
         "distinct valid indices, term indices in range. Quantified VCs give no counter-models: refutations come from the bounded stage.",
    technique='contract-based deductive verification with loop invariants (own VC generator, z3 E-matching) + bounded enumeration of deletion subsets')
CLAIMS['C01'] = dict(
    category='proof',
    text="The clause that carries soundness -- an ordering is reported only if the rotation re-check accepted it -- is proved as a guard "
         "obligation on the real AST of the re-check loop body of find_pattern_in_structure (geometry uninterpreted): the good-list grows "
         "only by the current ordering and only if np.allclose(candidate, q.apply(P') + candidate[axis point], rtol=0, atol=<requested "
         "atol>) returned True, and the rotation stored for the ordering is that same q. With the assumed contracts of np.allclose and of "
         "scipy rotations (proper) this is 'one proper rotation plus translation within the absolute tolerance'. helpers.atoms_of_type is proved "
         "to return exactly the indices whose element equals the wanted one, and the search takes its start atoms from it with the first pattern "
         "element. Index validity, element equality of the other atoms, lattice offsets and distinctness are evaluated as run-time postconditions "
         "on ~1 000 planted searches (bounded).",
    note="Assumed: np.allclose contract, properness of scipy Rotation.apply, deepcopy; clauses (1),(2),(4) of DESIGN C01 are bounded only "
         "(the five search loops are not cut); bridge lemma G1 (distinct images) assumed.",
    technique='contract-based deductive verification (block contract / guard obligation via own VC generator, z3) + bounded run-time postconditions')
CLAIMS['C02'] = dict(
    category='other',
    text="'At most once' is proved: helpers.group_duplicates is verified with a loop invariant (every tuple filed under a key has that "
         "key, every input tuple is filed) for lists of any length, and with the selection block proved in C03 at most one tuple per key "
         "is reported. 'Nothing outside tolerance' is the C01 guard obligation. Completeness -- every planted occurrence is reported -- "
         "is floating-point geometry of the search and is only checked with a stated bound: planted == found on ~390 generated "
         "structures (4 cells, 7 shapes, boundary-straddling placements, decoys, mirror images, near misses).",
    note="Level 'other' because the central clause (completeness) is bounded, not proved. Assumes dict-iteration guarantees of Python.",
    technique='contract-based deductive verification of the uniqueness clause (loop invariant, z3) + bounded planted-structure search for completeness')
CLAIMS['C03'] = dict(
    category='other',
    text="Proved as block contracts on the real AST of find_pattern_in_structure: (a) hint normalisation -- after the first statements the "
         "axis indices are exactly what the hints say, index 0 included (Python's `or` on integers modelled exactly; the pre-fix code is "
         "refuted with the replayable input axisp1_idx=0); (b) per candidate group a match is reported iff some ordering passed the "
         "re-check and it is one of the passing orderings, random.choice entering only as 'returns a member'. All metamorphic relations "
         "of the statement (shift-and-wrap, permutation, rigid motion, hint triples, seeds, supercells) are relations between two runs "
         "and are only checked with a stated bound on the real code (~330 relation instances quick; UiO-66 files in thorough).",
    note="Level 'other': the relations themselves are bounded. np.random inside quaternion_from_two_vectors (antiparallel axes) is outside "
         "the proved part.",
    technique='contract-based deductive verification of hint normalisation and RNG independence (block contracts, z3) + bounded metamorphic relations')
CLAIMS['C04'] = dict(
    category='proof',
    text="Proved on the real AST of replace_pattern_in_structure. (a) Block contract on the selection: the matches selected for replacement are "
         "round(f*M) (ties to even; all M for f >= 1) pairwise distinct members of the found list, positions and rotations follow the same "
         "selection, and the reported count is their number. (b) Frame of the whole replacement for ANY number of matches: the statements "
         "from `new_structure = structure.copy()` to the bulk delete are executed with the match loop cut at an invariant and with "
         "Atoms.extend_types / extend / __delitem__ replaced by their contracts proved in C11 / C10 (their preconditions become obligations "
         "at the call sites): the removed atoms are exactly the atoms of the replaced matches at search positions not common to both "
         "patterns (all matched atoms with replace_all); every atom not removed -- bystanders and atoms common to both patterns -- keeps "
         "position, charge, group and order, atoms outside all matches also their type id, and old type ids keep their table entries; the "
         "input structure and the replacement pattern are not modified. Overlap handling is C07. The number and element of the inserted atoms "
         "(atom / per-element counts) and the empty-replacement branch are only checked with a stated bound: 195 planted replacements quick "
         "(9 pattern pairs x 4 cells x 5 fractions x replace_all).",
    note="Assumed: contracts of find_pattern_in_structure (matches list distinct existing atoms; C01 bounded part) and find_unchanged_atom_pairs "
         "(partial injection); random.sample, round, list(set), row-wise numpy operations keep the row count; A4 deepcopy. Callee contracts are "
         "those proved in C10 / C11 (C11: all 16 kind scenarios in the thorough tier).",
    technique='contract-based deductive verification (modular: match loop under invariant against the proved contracts of extend / __delitem__, z3) + bounded planted-structure replacement')
CLAIMS['C05'] = dict(
    category='proof',
    text="The placement statements of the match loop (copy, q.apply, translate, wrap) and the two pattern translations at the top of "
         "replace_pattern_in_structure are executed symbolically for one arbitrary replacement atom, an arbitrary linear map as rotation "
         "and an arbitrary invertible 3x3 cell: proved that the unwrapped position is q(R_j - S_0) + p_0, that its deviation from the ideal "
         "rigid image equals the deviation of matched atom 0 (bounded by atol through C01), that the wrapped position is the image of the "
         "fractional coordinates reduced modulo 1, hence differs from the unwrapped one by an integer lattice combination and lies in the "
         "cell -- for any cell shape (the pre-fix diag-modulo code is refuted and replays on a tilted cell). Joint rigid-motion invariance "
         "and boundary-straddling placements are bounded (80 cases quick).",
    note="Assumes A2 (reals), row-wise numpy arithmetic, linearity of Rotation.apply, x @ inv(C) = fractional coordinates (f @ C = x). "
         "Joint-motion invariance is checked only where the matched frame is determined (non-collinear search pattern or on-axis "
         "replacement atoms): for a collinear search pattern with off-axis replacement atoms the azimuth is undetermined by the match.",
    technique='contract-based deductive verification over reals (block contracts, z3 nonlinear arithmetic) + bounded placement checks')
CLAIMS['C07'] = dict(
    category='proof',
    text="The overlap test of the match loop is verified as a block contract with sets as characteristic predicates: the block exits "
         "normally only if the running deletion set and this match's deletion set (matched atoms minus retained atoms) are disjoint or "
         "the caller asked to ignore, and then to_delete grows by exactly that set; it raises AtomsShouldNotBeDeletedTwice exactly when "
         "they overlap and ignoring was not requested. An inductive lemma lifts this to the whole loop (every atom is in at most one "
         "deletion set). That the empty-replacement branch cannot raise and that one bulk delete of list(set) is performed are read from the "
         "same AST. An exhaustive grid of sharing combinations runs on the real code.",
    note="Assumes Python set semantics; which matches are found (and therefore overlap) is the search's business (C01/C02).",
    technique='contract-based deductive verification (block contract over set predicates + inductive lemma, z3) + exhaustive grid')
CLAIMS['C08'] = dict(
    category='proof',
    text="Proved on the real code: (a) atoms.find_unchanged_atom_pairs(P, P) is the identity map for patterns of any size without coincident "
         "same-element atoms (both loops under invariants, `break` handled); (b) with that map, the replacement block of "
         "replace_pattern_in_structure is executed for ANY number of matches against the proved contracts of extend_types / extend / "
         "__delitem__ and the contract of the search: every pattern atom is mapped onto its matched atom, extend appends no atom, nothing is "
         "marked for deletion, the final delete gets an empty list and changes nothing (C10 corollary) -- so replacing a pattern by an "
         "identical pattern leaves atom count and order, every position, charge, group and element, and every bond / angle / torsion array "
         "with types and extra rows unchanged (pattern without terms of its own; a pattern with terms adds them, which is C06's clause). "
         "A -> B -> A reversibility, 'a second search finds none' and the repository's MOF files are only checked with a stated bound "
         "(67 cases quick incl. occurrences sharing atoms, a same-element atom displaced by 0.08 A, wide tolerances; UiO-66 in thorough).",
    note="Assumed: contract of find_pattern_in_structure (matches list distinct existing atoms carrying the pattern's elements; C01 bounded part); "
         "norm uninterpreted with norm(0) = 0; callee contracts as proved in C10 / C11; A4 deepcopy.",
    technique='contract-based deductive verification (loop invariants; replacement block modular over callee contracts, z3) + bounded A->B->A and MOF-file checks')
CLAIMS['C16'] = dict(
    category='proof',
    text="Atoms.load_cml is executed symbolically against an abstract parsed document (two symbolic lists of attribute dictionaries of any "
         "length, unique atom ids, every bond reference naming an atom): proved that the constructor receives one element and one x3/y3/z3 "
         "triple per atom entry in document order, one bond per bond entry joining the document positions of the referenced ids (dict "
         "comprehension and lookups modelled with witness functions), one bond type per bond, and that no well-formed document makes it "
         "raise -- in particular zero bonds (the pre-fix zip(*[]) unpack is refuted with the replayed input n_bonds=0). Atoms.load's format "
         "dispatch is proved as a call-trace contract: a file object needs a type, an explicit type decides before the extension, load_cml gets the "
         "file object or the path, keywords are passed through. The real XML parser, id spellings (also bare numbers), molecule-sized and all-zero "
         "geometries and verbose loads are exercised on ~260 generated documents.",
    note="Assumed: ElementTree returns elements in document order; float() and str.split() uninterpreted; np.array([x,y,z]).T stacks columns.",
    technique='contract-based deductive verification against an abstract parser result (own VC generator, z3 E-matching) + bounded generated documents')
CLAIMS['C17'] = dict(
    category='proof',
    text="max_bond_length is proved equal to r1 + r2 + 0.45*[a non-metal is involved] for all element pairs of the real COVALENT_RADII / "
         "NON_METALS tables (symbolic element names) and symmetric. Both nested loops of detect_bonds are under inductive invariants (ghost "
         "rank of a pair): for structures of any size, with and without a cell, the returned array lists exactly the pairs i<j for which the "
         "code's distance test `np.any(cdist(pos[i] + uc_offsets, [pos[j]]) < max_bond_length(el[i], el[j]))` holds, each pair once. What the "
         "numpy / scipy composite computes (smallest distance over the listed offsets), the 27 vectors of uc_neighbor_offsets, and shift / "
         "reorder invariance are checked with a stated bound on the real code against an independent minimum-image computation over 125 "
         "images (9 409 cutoff pairs exhaustively; ~430 generated structures with pairs at cutoff +/- 1e-6 through faces, edges and corners).",
    note="Assumed: the numpy/scipy composite of the distance test as an uninterpreted function of (position i, offsets, position j, cutoff); "
         "bridge lemma G2 (27 images suffice for widths > cutoff); A2 reals.",
    technique='contract-based deductive verification (cutoff rule and both pair loops under invariants, z3) + bounded comparison with an independent minimum-image rule')
CLAIMS['C19'] = dict(
    category='proof',
    text="Proved for all inputs on the real code: helpers.typekey returns the tuple or its reverse, is reversal invariant and two tuples have the "
         "same key iff they are equal up to reversal (arities 2-4); rough_uff.delete_if_all_in_set removes exactly the tuples wholly inside the "
         "exclusion set (loop invariant, widths 2-4); rough_uff.calc_angles and calc_dihedrals, for bond lists of any length (loops over nodes / "
         "edges under invariants with ghost rows): every angle (a, n, b) joins two different atoms bonded to n, every pair of distinct "
         "neighbours of every atom is listed, none twice forwards or backwards; every dihedral is a bonded chain i-j-k-l with i != k and l != j, "
         "every chain around every bond is listed, none twice; rough_uff.assign_bond_types and assign_angle_types, for term lists of any "
         "length: two terms get the same type number exactly when their UFF type sequences agree up to reversal, the coefficient line of a "
         "term's type is the one computed from the term's own sequence, type numbers are dense (modular over the contracts of typekey, "
         "bond_params / angle_params, angle2lammpsdat); the key statements of rough_uff.assign_dihedral_types (block contracts, any dihedral, any "
         "type assignment): a torsion is counted under its central bond j-k in either direction and over the full list (before the exclusion set "
         "is applied), a dihedral's type key is its UFF sequence up to reversal followed by the count filed under its own central bond and is the "
         "same for the dihedral listed backwards, and the exclusion set is applied through delete_if_all_in_set exactly when it holds at least "
         "four atoms, and the parameter entry of a type is dihedral_params of that type's own key (either orientation) with the caller's rules, and a type's coefficient line is formatted from its own four parameters. The rest of dihedral typing (first-seen numbering, dropping of undefined torsions, coefficient strings), renaming / "
         "permutation invariance and the retyping tables are only checked with a stated bound: all labelled trees up to 5 nodes, rings, "
         "ring assemblies, a metal node, graphs mixing kept and dropped torsions, 4 type assignments, renamings with reversed terms, all 221 UFF types.",
    note="Assumed contracts: networkx Graph (nodes = endpoints, adj / neighbors = the distinct bonded atoms, edges = every bond once), itertools.combinations, "
         "list.remove, double comprehension, list(dict.fromkeys(xs).keys()) + list.index, list += list. Of assign_dihedral_types only the count / key / exclusion statements are under contract; its deletion loop and numbering are bounded. "
         "Known finding: UFF types Du and Lw6+3 have no mass entry (retype raises).",
    technique='contract-based deductive verification (loop invariants with ghost state for the enumerations, modular typing proofs, z3) + bounded graph enumeration')
CLAIMS['C12'] = dict(
    category='proof',
    text="Atoms.replicate is executed symbolically for an arbitrary atom, an arbitrary 3x3 cell and symbolic positive factors, with copy / "
         "extend / the image enumeration under contract: proved that the new cell rows are a*A, b*B, c*C for any cell shape (the pre-fix "
         "column scaling is refuted), that the body of the image loop appends to the result a fresh copy of the original translated by "
         "exactly i*A + j*B + k*C for the enumerated multiplier, with shared type ids given as one zero offset per term kind (the pre-fix "
         "4-tuple is refuted) and no identity map, and that the original object is never modified. The effect of extend on each image is "
         "C11's contract. 360 replications on the real code (4 cells incl. arbitrarily oriented, unequal factors, impropers, extra fields) "
         "check the assembled result.",
    note="Assumed: the numpy meshgrid/reshape/mask composite enumerates every multiplier triple except zero once; A2, A4; extend's contract.",
    technique='contract-based deductive verification (symbolic execution with callee contracts, real arithmetic, z3) + bounded replication checks')
CLAIMS['C06'] = dict(
    category='other',
    text="Proved for all table sizes on the real code: Atoms.extend_types (with the five num_*_types properties inlined) appends the pattern's type "
         "tables after the structure's, leaves the pattern unmodified and returns offsets equal to the old table lengths whenever a table exists "
         "(atom types always), so `pattern id + offset` resolves to the pattern's coefficient text and old ids keep theirs -- also when a kind has a "
         "table but currently no terms; the pair table stays aligned when the structure has one. Proved for any number of non-overlapping matches "
         "(replacement block of replace_pattern_in_structure executed against the proved contracts of extend_types / extend / __delitem__, with a "
         "ghost recording the origin of every appended row): every inserted atom carries the charge, group and type id + offset of a "
         "replacement-only pattern atom, every atom taken over carries the type id + offset of its pattern atom, none of them is deleted, and "
         "that type id resolves to the pattern's type label, element and mass. Per call of extend the transfer of the pattern's terms "
         "(converted through the identity map, type + offset, supersession forwards / backwards) is C11's proof; removal and re-indexing on the "
         "final delete is C10's. The survival of those terms across later matches and the final delete, and repeated replacements, are only "
         "checked with a stated bound against a reference model that identifies atoms by position (35 workflows quick, incl. two-step "
         "replacements, long coefficient texts, terms listed backwards or on the same atoms with a different centre, pattern labels equal to "
         "the structure's, a pattern in group 0).",
    note="Level 'other': the composition of the term clauses over several matches is bounded. Known finding F11: a structure with atom types but no pair "
         "table (CIF workflow) gets misaligned pair coefficients; printed as KNOWN-FINDING. Assumed: contract of the search, non-overlapping matches for the atom clause.",
    technique='contract-based deductive verification of the type-offset obligations and of the atom clause (modular, ghost state, z3) + bounded reference-model comparison')
CLAIMS['C09'] = dict(
    category='proof',
    text="Invariant preservation is proved per operation on the real code: assert_arrays_are_consistent_sizes returns normally only if the size "
         "invariant holds (all branches explored); __delitem__/pop re-establish it, keep surviving terms pointing at existing atoms and leave the "
         "tables untouched (C10); extend_types only appends to tables and returns the old lengths as offsets, also for kinds with a table but no "
         "terms (C11); the whole body of extend keeps sizes consistent and every term on existing atoms (C11, here the all-kinds scenario); "
         "__getitem__ passes the same index list to every per-atom array and ALL atom type tables (elements, masses, labels, pair "
         "coefficients -- the last one found missing and fixed); replace_pattern_in_structure hands back a well-formed structure for any number "
         "of matches (C04's modular proof over the contracts of extend / __delitem__); replicate is C12. Closure under histories follows by "
         "induction. The constructor's defaulting, the file readers and LAMMPS writability are only checked with a stated bound: ~1 800 operation "
         "histories of depth 3 compared step by step with an abstract model, each ending in a write / re-read of a LAMMPS file with matching "
         "declared counts.",
    note="Atoms.__init__ and the readers are not under contract (bounded). Assumes deepcopy, the numpy contracts of C10 / C11, the contract of the pattern search.",
    technique='contract-based deductive verification of invariant preservation per operation (z3; modular for replace) + bounded operation histories against an abstract model')
CLAIMS['C11'] = dict(
    category='proof',
    text="The whole body of Atoms.extend is executed symbolically on structures, identity maps and term arrays of arbitrary size (loop over the "
         "identity map cut at an invariant; every combination of present / absent term kinds and of empty / non-empty existing term arrays; "
         "default and explicit offsets) and the statement's postcondition is discharged: unmapped atoms of the other structure are appended in "
         "order with position, charge, group, extra row and type id + offset; mapped atoms keep position / charge / group and adopt the other's "
         "type and extra row; every term of the other structure appears once between the corresponding atoms (mapped -> the identified atom, "
         "unmapped -> its appended position) with type id + offset and its extra row; an existing term is removed iff it lies on exactly the "
         "same atoms as a converted new term, forwards or backwards, all other existing terms keep order, type and extra row; all terms refer to "
         "existing atoms; the other structure is unmodified; the size invariant is re-established. extend_types is proved separately (tables "
         "appended, offsets = old lengths) and used as a contract. ~2 500 obligations quick (4 kind scenarios), all 16 in thorough. The label-wise "
         "merge of extra columns inside _extend_extra_fields is an assumed contract exercised by 669 real extensions (bounded).",
    note="Assumed numpy/Python contracts: np.append, np.delete (monotone bijection), fancy indexing, np.vectorize(dict.get), cdist(...,'cityblock')==0 "
         "iff rows equal, np.nonzero row indices, filtering comprehension, dict comprehension/update; A1, A5. requires: WF(self), WF(other), injective "
         "identity map with valid indices.",
    technique='contract-based deductive verification (symbolic execution of the real AST with loop invariant and callee contracts, z3 E-matching) + bounded enumeration of identity maps')
CLAIMS['C13'] = dict(
    category='proof',
    text="Record-level proof on the real AST of Atoms.save_lmpdat (file object recording every write, structure of arbitrary size, both atom "
         "styles, scenarios with everything present / everything absent): count lines state the lengths, type-count lines state the table sizes and "
         "are written iff positive, box lines state 0..cell[i][i], the tilt line cell[1][0], cell[2][0], cell[2][1] and is written exactly for "
         "non-orthorhombic cells (cell_is_orthorhombic is proved to hold exactly when every off-diagonal entry is zero), a file is written only for a cell in "
         "LAMMPS orientation and refused only otherwise, sections appear in LAMMPS order, and every record of Masses / * Coeffs / Atoms / Bonds / Angles / Dihedrals / "
         "Impropers carries the 1-based id of its position, the 1-based type and atom ids, charge, molecule id and coordinates of that item in the "
         "order of the style. Reader side: the decoding statements of load_lmpdat (style switch, get_types_tups) are executed on token arrays "
         "carrying exactly what the writer was proved to emit; proved for both styles and all combinations of empty / non-empty sections that "
         "reading back yields the structure's type ids, molecule groups, charges, positions and every term with its type and atoms "
         "(decode(encode(item)) == item: column order and 1-based / 0-based shifts agree). The body of the reader's line loop is proved as a "
         "transition relation from an arbitrary reader state on an arbitrary line (str operations uninterpreted): headers open their section, blank "
         "lines end it unless they follow the header, a record adds exactly one entry computed from that line's own tokens and comment to the list(s) "
         "of the current section and to no other, box / tilt lines set their own cell numbers. The format dispatch of Atoms.load / Atoms.save is "
         "proved as a call-trace contract (explicit type before extension, keywords passed through, one reader / writer call on the handle of the "
         "given file or path). The characters of the text (tokenisation, number formatting), whole-file composition and the byte-identical rewrite "
         "are only checked with a stated bound: the text is parsed by an independent reader, re-read with mofun and re-written to a fixed point "
         "(~180 generated files quick, both styles, contiguous and sparse molecule ids, partly / strongly tilted and 1e-5 tilts, mixed comments).",
    note="Format strings and str.split are not interpreted: the bridge 'the numeric tokens of a record line are the numbers formatted into it' is an "
         "assumption (exercised by the bounded stage); np.array(dtype=int) exact on integral columns; A2.",
    technique='contract-based deductive verification of the writer records and of the reader decoding statements with a record-level round-trip lemma (z3) + bounded round trip with an independent reader')
CLAIMS['C15'] = dict(
    category='proof',
    text="Proved on the real AST. Reader glue of load_p1_cif against an abstract block: a file is rejected iff it carries a space-group name other "
         "than P1 / 'P 1' (or no coordinates), Cartesian tags take precedence over fractional ones, and fractional coordinates are reduced modulo 1 "
         "before the multiplication with the cell (real arithmetic, arbitrary atom and cell). Writer: save_p1_cif executed on a structure of "
         "arbitrary size (every combination of present / absent term kinds, fractional and Cartesian output) with recorders in place of the "
         "PyCifRW objects: the block declares P 1 and the cell lengths / angles (4 decimals), one atom loop with label, element of atom k, its "
         "coordinates to 4 decimals (fractional = positions.dot(inv(cell)) row-wise) and charge in atom order, a bond / angle / torsion loop "
         "exactly when such terms exist, row k naming the labels of the atoms of term k, torsions = dihedrals followed by impropers. Reader: the "
         "label -> index decoding statements of load_p1_cif, run on the columns the writer was proved to add, return bonds, angles and torsions "
         "between the same atoms in order (record-level round trip). cell_abc_alpha_beta_gamma: a, b, c are computed from cell rows 0, 1, 2 and alpha, "
         "beta, gamma from rows (1,2), (0,2), (0,1) (data flow; the formula is bounded). Format dispatch of Atoms.load / Atoms.save: call-trace "
         "contract shared with C13 / C16. Label distinctness, extra columns, uncertainties, PyCifRW and the "
         "text-level rewrite are only checked with a stated bound: write -> read -> compare -> rewrite on ~70 generated structures (3 cells, "
         "coordinates inside / outside / on the boundary, explicit types sharing an element, all term kinds and single kinds, extra columns), "
         "comparison with ase.io.read, uncertainties in parentheses, 26 space-group names.",
    note="Assumed: PyCifRW hands back the loops / columns that were added (bridge), atom labels (element + running count) are pairwise distinct, "
         "list.index = first position, A2. Known findings: impropers + extra torsion columns cannot be written (F17); '-0.0000' text after a re-read "
         "(cosmetic). The writer raised on every call before the fix 20ec69a.",
    technique='contract-based deductive verification of the reader decisions, the writer content and the label decoding (recorders for PyCifRW, z3) + bounded CIF round trips with an independent reader')
CLAIMS['C20'] = dict(
    category='proof',
    text="mofun_cli's body is executed symbolically in six option scenarios with every callee uninterpreted and the structure's state a version "
         "term: the term handed to save is the documented nesting load -> cell / positions / charges overrides -> replicate -> minimum-image "
         "replication -> pair parameters -> replace, saved exactly once to the output path; the replacement receives the loaded find / replace files "
         "and atol, replacement fraction and the three hints at the keywords they name (also for value 0); find-only searches the structure that is "
         "saved unmodified with the given atol; every click option destination is a parameter. --framework-element is refuted (AttributeError): "
         "known finding. click's parsing, file formats and equality with the API under the same seed are checked on 67 in-process invocations.",
    note="Callees are uninterpreted (their behaviour is C04-C16); click's delivery of option values is assumed and exercised by the bounded stage.",
    technique='contract-based deductive verification (call-trace contract by symbolic execution with uninterpreted callees, z3) + bounded CliRunner vs API comparison')
